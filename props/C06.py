"""C06 — UPDATE encode/decode round trip for IPv4 unicast and the standard attributes."""
from .common import *
from . import update_units as UU

ID = 'C06'


def run(tier, seed, only=None):
    prog = pyvc.make_program()
    install_handler_model(prog.models)
    known = load_known()
    run = Run(ID, tier, seed)
    run.trusted = [T3, T4, T5, T6]
    run.assumptions = [T3, T4, LOGGING, UU.BOUND_NOTE]
    from .framing_units import framing_units, encoder_step_units
    for u in (UU.units((ID, 'C08', 'C09')) + UU.update_units((ID, 'C08', 'C09')) + UU.step_units((ID, 'C09', 'C15')) +
              framing_units((ID,), strict=True) + encoder_step_units((ID,))):
        if only and u.name not in only:
            continue
        run.run_unit(u, prog)
        if u.kind != 'step':
            run.vacuity_check(u)
    if not only:
        for lm in UU.lemmas(prog):
            run.run_lemma(lm)
    run.triage_all(known)
    run.replay_findings()
    run.witness_check(cap=None if tier == 'thorough' else 40)
    return run.finish(known, extra_coverage={'bounded': UU.BOUND})
