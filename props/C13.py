"""C13 — Operator stop is final until operator start"""
from .session_prop import *

ID = 'C13'


def run(tier, seed, only=None):
    from contracts import session as CS
    lemmas = LEMMAS(ID)
    return run_session(ID, tier, seed, only=only, select=None, lemmas=lemmas)


def LEMMAS(pid):
    from . import session_lemmas as SL
    return SL.for_prop(pid)
