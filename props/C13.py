"""C13 — Operator stop is final until operator start"""
from .session_prop import *

ID = 'C13'


def stopped_rx_unit():
    """data that still arrives between the operator's stop and connectionLost: the connection was closed by us, so the
    receive path does nothing at all — in particular it writes nothing (no NOTIFICATION in answer to anything)"""
    import copy
    import z3
    from . import session_units as SU
    u = [x for x in SU.rx_units() if x.name == 'BGP.parse_buffer'][0]
    d = copy.copy(u)
    d.name = 'BGP.parse_buffer[after operator stop]'
    orig = u.build

    def build(it):
        r = orig(it)
        S = r[3]
        from pyvc.values import to_bool_term
        it.p.assume(z3.And(S.st.t == 1, z3.Not(to_bool_term(S.allow_auto)), to_bool_term(S.P.f['disconnected'])))
        if not it.p.check_feasible_now():
            from pyvc.values import Infeasible
            raise Infeasible()
        return r
    d.build = build
    d.clause_props = lambda name: {ID}
    return d


def run(tier, seed, only=None):
    from contracts import session as CS
    import props.session_prop as SP_
    lemmas = LEMMAS(ID)
    saved = SP_.all_session_units

    def units_for_c13(pid=None):
        return saved(pid) + [stopped_rx_unit()]
    SP_.all_session_units = units_for_c13
    try:
        return run_session(ID, tier, seed, only=only, select=None, lemmas=lemmas)
    finally:
        SP_.all_session_units = saved


def LEMMAS(pid):
    from . import session_lemmas as SL
    return SL.for_prop(pid)
