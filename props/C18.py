"""C18 — Message statistics equal what actually crossed the wire"""
import z3
from .session_prop import *
from pyvc.values import SNum, SBytes, to_term
from pyvc.contracts import Spec

ID = 'C18'
SENT_CODE = {'Opens': (1,), 'Updates': (2,), 'Notifications': (3,), 'Keepalives': (4,), 'RouteRefresh': (5, 128)}


def direct_open_unit(u):
    """`_open_received` in OpenConfirm / Established, where the RFC row of C01 is an open known finding (KF-C01-6/7: the
    second OPEN is not ignored) and therefore does not describe what the code sends.  C18 is stated there directly:
    each sent counter moves by the number of messages of its type written to the connection; the received-OPEN counter
    moves by one (for a frame of at least the minimum OPEN length), no other received counter moves."""
    import copy
    d = copy.copy(u)
    d.name = 'BGP._open_received[wire counters in OpenConfirm/Established]'
    orig = u.build

    def build(it):
        r = orig(it)
        S = r[3]
        it.p.assume(z3.Or(S.st.t == 5, S.st.t == 6))
        it._c18_S = S
        return r

    def spec(c, P, timestamp, msg):
        S = c.it._c18_S
        from contracts import protocol_rx as RX
        from pyvc.contracts import Sim
        RX.rx_requires(Sim(c), P)         # the session invariant holds on entry (as for every entry point)
        sp = Spec()
        # decode errors propagate to parse_buffer, which reports them (its own unit)
        sp.may_raise = ('OpenMessageError', 'MessageHeaderError', 'OpaqueException')
        sp.loop_abstract = True          # outcome and the clauses below only: the transition itself is C01's business
        eff0 = len(c.it.p.effects)
        sent0 = dict(S.P.f['msg_sent_stat'])
        recv0 = dict(S.P.f['msg_recv_stat'])
        mlen = SBytes.of(msg).len

        def sent_clause(T):
            def f():
                n = z3.IntVal(0)
                for e in c.it.p.effects[eff0:]:
                    if e[0] == 'Write':
                        b = SBytes.of(e[2])
                        n = n + z3.If(z3.Or([b.at(18) == k for k in SENT_CODE[T]]), 1, 0)
                return to_term(S.P.f['msg_sent_stat'][T]) - to_term(sent0[T]) == n
            return f

        def recv_clause(T):
            def f():
                want = z3.If(mlen >= 10, 1, 0) if T == 'Opens' else z3.IntVal(0)
                return to_term(S.P.f['msg_recv_stat'][T]) - to_term(recv0[T]) == want
            return f
        sp.post = [('C18-wire/sent-%s' % T, sent_clause(T)) for T in SENT_CODE] + \
                  [('C18-wire/recv-%s' % T, recv_clause(T)) for T in SENT_CODE]
        return sp
    d.build = build
    d.spec = spec
    d.clause_props = lambda name: ({ID} if ('C18-wire' in name or 'outcome' in name) else set())   # call-site Inv clauses there are C01's (KF-C01-6/7)
    return d


def run(tier, seed, only=None):
    from . import session_units as SU
    lemmas = LEMMAS(ID)
    orig_all = globals()['all_session_units']

    def units_for_c18(pid=None):
        out = []
        for u in orig_all(pid):
            if u.name == 'BGP._open_received':
                d = direct_open_unit(u)
                ob = u.build

                def build(it, ob=ob):
                    r = ob(it)
                    S = r[3]
                    # the spec-derived statistics clauses are used where the C01 row describes the code
                    it.p.assume(z3.Not(z3.Or(S.st.t == 5, S.st.t == 6)))
                    return r
                u.build = build
                out += [u, d]
            else:
                out.append(u)
        return out
    import props.session_prop as SP_
    saved = SP_.all_session_units
    SP_.all_session_units = units_for_c18
    try:
        return run_session(ID, tier, seed, only=only,
                           select=lambda u: u.name == 'BGPPeering.buildProtocol' or u.name.split('.')[0] == 'BGP' and u.name not in (
                               'BGP.connectionMade', 'BGP.connectionLost', 'BGP.closeConnection', 'BGP.negotiate_hold_time'),
                           lemmas=lemmas,
                           assumptions=['`_open_received` in OpenConfirm / Established (open C01 findings KF-C01-6/7) is checked against the direct '
                                        'wire-counter clauses, not against the RFC row'])
    finally:
        SP_.all_session_units = saved


def LEMMAS(pid):
    from . import session_lemmas as SL
    return SL.for_prop(pid)
