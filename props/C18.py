"""C18 — Message statistics equal what actually crossed the wire"""
from .session_prop import *

ID = 'C18'


def run(tier, seed, only=None):
    from contracts import session as CS
    lemmas = LEMMAS(ID)
    return run_session(ID, tier, seed, only=only, select=lambda u: u.name.split('.')[0] == 'BGP' and u.name not in ('BGP.connectionMade', 'BGP.connectionLost', 'BGP.closeConnection', 'BGP.negotiate_hold_time'), lemmas=lemmas)


def LEMMAS(pid):
    from . import session_lemmas as SL
    return SL.for_prop(pid)
