"""Verification units for pure codec functions (yabgp/message/**): arguments in, value or exception out."""
import z3
from pyvc.values import SNum, SBool, SBytes, Opaque, Obj, Unsupported
from pyvc.contracts import Spec, snapshot
from pyvc.driver import Unit
from pyvc import replay as RP
from pyvc.strings import SStr


class CodecUnit(Unit):
    """A function of yabgp/message verified against `expect(it, *args) -> ('ret', value) | ('exc', class name)`.
    `make_args(it)` builds the symbolic arguments (after the receiver, if `instance` is given)."""

    def __init__(self, name, qual, make_args, expect, props=(), instance=None, light=False, concrete_loops=False,
                 requires=None, doc='', fields=None, max_paths=4000, receiver_cls=None):
        self.receiver_cls = receiver_cls      # qualname of the (sub)class a classmethod is called on
        self.make_args = make_args
        self.expect = expect
        self.instance = instance          # (class qualname, make_init_args(it)) for methods on instances
        self.fields = fields
        self.concrete_loops = concrete_loops

        def build(it):
            it.concrete_loops = concrete_loops
            args = list(make_args(it))
            ctx = {'args': args}
            f = it.prog.func(qual)
            recv = []
            if instance is not None:
                cls = it.prog.func(instance[0])
                init = list(instance[1](it)) if instance[1] else []
                ctx['init'] = init
                obj = it.instantiate(cls, init, {})
                recv = [obj]
            elif f.kind == 'classmethod':
                recv = [it.prog.func(receiver_cls) if receiver_cls else f.cls]
            return [], recv + args, {}, ctx

        def spec(c, *vals):
            f = c.it.prog.func(qual)
            a = vals[1:] if (instance is not None or f.kind == 'classmethod') else vals
            kind, val = expect(c.it, *a)
            if kind == 'any':
                return None        # three-valued spec: neither a value nor a listed malformation is demanded here
            sp = Spec()
            if kind == 'ret':
                sp.ret = val
            elif kind == 'exc':
                sp.exc = (val, {})
            elif kind == 'exc+':
                sp.exc = val
            elif kind == 'ret+':
                # value plus separately named clauses [(name, z3 bool, detail)] (kept apart so that a known finding on one
                # clause does not absorb refutations of the others)
                sp.ret, extra = val
                sp.extra_clauses = extra
                sp.post = [(n, (lambda t=t: t)) for (n, t, d) in extra]
            return sp
        Unit.__init__(self, name, qual, build, spec, kind='codec', props=props, doc=doc,
                      verify_kw={'light': light, 'max_paths': max_paths})
        self.request = self._request
        self.expected = self._expected
        self.predicted = self._predicted

    # -- native replay
    def _request(self, outcome, model):
        ctx = outcome.extra['ctx']
        args = [RP.jval(RP.concretize(model, a)) for a in ctx['args']]
        fn = self.qual if not self.receiver_cls else self.receiver_cls + '.' + self.qual.rsplit('.', 1)[1]
        req = {'kind': 'call', 'function': fn, 'args': args, 'cpu_s': 5.0}
        if self.instance is not None:
            req['instantiate'] = self.instance[0]
            req['init_args'] = [RP.jval(RP.concretize(model, a)) for a in ctx.get('init', [])]
        return req

    def _cmp(self, kind, value, excname, out, model, label):
        diffs = []
        if kind == 'raise':
            if out.get('outcome') != 'raise':
                diffs.append('%s raises %s, real code returned %s' % (label, excname, str(out.get('result'))[:200]))
            elif excname not in ('OpaqueException',) and not exc_compatible(excname, out.get('exc')):
                diffs.append('%s raises %s, real code raised %s' % (label, excname, out.get('exc')))
        else:
            if out.get('outcome') == 'raise':
                diffs.append('%s returns, real code raised %s: %s' % (label, out.get('exc'), out.get('exc_str', '')[:120]))
            elif out.get('outcome') == 'timeout':
                diffs.append('%s returns, real code did not finish in the CPU budget' % label)
            else:
                want = RP.jval(RP.concretize(model, value))
                got = out.get('result')
                if norm_json(want) != norm_json(got):
                    diffs.append('%s returns %s, real code returned %s' % (label, str(want)[:300], str(got)[:300]))
        return diffs

    def _expected(self, outcome, model, out):
        sp = outcome.extra['spec']
        if sp is None:
            return []
        if sp.exc is not None:
            cls = sp.exc[0]
            return self._cmp('raise', None, cls if isinstance(cls, str) else cls.name, out, model, 'spec')
        diffs = self._cmp('return', sp.ret, None, out, model, 'spec')
        for (n, t, d) in getattr(sp, 'extra_clauses', []):
            if z3.is_false(z3.simplify(t)):
                diffs.append('%s: %s (real code returned %s)' % (n, d, str(out.get('result'))[:80]))
        return diffs

    def _predicted(self, outcome, model, out):
        if outcome.kind == 'raise':
            return self._cmp('raise', None, outcome.value.clsname, out, model, 'engine')
        return self._cmp('return', outcome.value, None, out, model, 'engine')


EXC_ALIASES = {'struct.error': ('error',), 'binascii.Error': ('Error',), 'AddrFormatError': ('AddrFormatError',)}


def exc_compatible(engine_name, native_name):
    e = engine_name.split('.')[-1]
    if e == native_name:
        return True
    if native_name in EXC_ALIASES.get(engine_name, ()):
        return True
    return False


def norm_json(v):
    """normalise the JSON forms of engine-side and native values for comparison"""
    if isinstance(v, dict):
        if 'hex' in v:
            return ('bytes', v['hex'])
        if 'dict' in v:
            return ('dict', sorted(((repr(norm_json(k)), norm_json(x)) for k, x in v['dict']), key=lambda t: t[0]))
        if 'list' in v:
            return ('list', [norm_json(x) for x in v['list']])
        if 'tuple' in v:
            return ('tuple', [norm_json(x) for x in v['tuple']])
        return ('obj', repr(v))
    if isinstance(v, bool):
        return ('bool', v)
    if isinstance(v, float) and v == int(v):
        return ('num', int(v))
    if isinstance(v, (int, float)):
        return ('num', v)
    return v


def sym_int(it, name, lo, hi):
    v = z3.Int(name)
    it.p.assume(z3.And(v >= lo, v <= hi))
    return SNum(v)


def any_int(it, name):
    return SNum(z3.Int(name))
