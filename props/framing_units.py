"""Attribute-TLV framing of the list-valued attribute encoders for lists of ANY length (unbounded).

The element loops are abstracted (for-loop rule of the light mode: what the loop assigns is havoc'd — an accumulated
octet string becomes an arbitrary octet string of arbitrary length — and the body is run once on an arbitrary element),
so the contract is on the code AFTER the loops: whatever value octets V were accumulated,
    result == flags || type || length || V   with  flags = FLAG (+ Extended Length iff the length field has 2 octets),
    the length field == len(V), nothing follows.
`strict`: a struct.error (length does not fit one octet) is not an acceptable outcome (C06: every in-range list
round-trips); otherwise any error outcome is accepted (C08: construction fails with an error, never malformed)."""
import z3
from pyvc.values import SNum, SBytes, Opaque, OpaqueSeq, Obj
from pyvc.contracts import Spec, Any
from pyvc.driver import Unit

A = 'yabgp.message.attribute.'
ENCODERS = [
    # (qualname of the class, FLAG, type code, extra positional args)
    (A + 'aspath.ASPath', 0x40, 2, [False]),
    (A + 'aspath.ASPath', 0x40, 2, [True]),
    (A + 'community.Community', 0xC0, 8, []),
    (A + 'extcommunity.ExtCommunity', 0xC0, 16, []),
    (A + 'largecommunity.LargeCommunity', 0xC0, 32, []),
    (A + 'clusterlist.ClusterList', 0x80, 10, []),
]
YABGP_ERRORS = ('UpdateMessageError', 'ConstructAttributeFailed', 'OpaqueException', 'AssertionError', 'ValueError', 'TypeError',
                'KeyError', 'IndexError', 'AttributeError', 'AddrFormatError')


def wf_tlv(got, flag, code):
    """z3 term: `got` is one well-formed path attribute with the category flags and type code"""
    if got is None:
        return True         # nothing emitted for this attribute
    if not isinstance(got, (bytes, SBytes)):
        return False
    b = SBytes.of(got)
    n = b.len
    f0, t0 = b.at(0), b.at(1)
    ext = (f0 == flag + 0x10)
    short_form = z3.And(f0 == flag, n == 3 + b.at(2))
    long_form = z3.And(ext, n >= 4, n == 4 + b.at(2) * 256 + b.at(3))
    return z3.And(n >= 3, t0 == code, z3.Or(short_form, long_form))


MAX_VALUE = 4096      # a BGP message is at most 4096 octets (RFC 4271): no attribute value is longer


def loop_rule(it, node, env, itval):
    """for-loops over the unknown list: the light-mode abstraction, plus the stated size assumption on what they accumulate"""
    import ast
    from pyvc.interp import _MISSING
    if not isinstance(node, ast.For) or not isinstance(itval, Opaque):
        return _MISSING
    it.for_opaque(node, env, itval)
    for nm, v in list(env.items()):
        if isinstance(v, SBytes):
            it.p.assume(v.len <= MAX_VALUE)
    return None


def framing_units(props, strict):
    out = []
    for (cq, flag, code, extra) in ENCODERS:
        qual = cq + '.construct'

        def build(it, cq=cq, extra=extra):
            cls = it.prog.func(cq)
            value = OpaqueSeq(z3.Int('n_items'), 'the list to encode', 'list')
            it.p.assume(z3.Int('n_items') >= 0)
            return [], [cls, value] + list(extra), {}, None

        def spec(c, *a, flag=flag, code=code, cq=cq):
            # the category bits are the business of the value units / the flag lemma: framing takes the class constant
            flag = int(c.it.prog.func(cq).lookup('FLAG'))
            sp = Spec()
            sp.ret = Any(lambda got: wf_tlv(got, flag, code), 'one well-formed attribute TLV (length field == value octets, Extended Length iff 2-octet length)')
            sp.element_errors_ok = True      # an error raised for some element of the list is a value rejection, not framing
            sp.may_raise = YABGP_ERRORS + (() if strict else ('struct.error', 'error'))
            return sp
        label = '%s.construct[framing%s]' % (cq.split('.')[-1], ' asn4' if extra == [True] else '')
        out.append(Unit(label, qual, build, spec, kind='codec', props=props, verify_kw={'light': True, 'loop_rule': loop_rule}))
    return out


# ================================================================ accumulation step contract (encoder for-loops)
def acc_step_unit(name, qual, acc_var, make_elem, props, extra_args=()):
    """for-loop rule on the real loop body of a list encoder: from an ARBITRARY accumulated octet string, one iteration on an
    element appends exactly that element's encoding and keeps every octet accumulated before (so a list encodes to the
    concatenation of its elements' encodings, by induction over the loop; T5).
    make_elem(it) -> (element value, its reference encoding)"""
    import ast
    from pyvc.interp import _MISSING, PyExc, Cont, Brk
    from pyvc.values import LoopCut
    from pyvc.contracts import same_value

    def rule(it, node, env, itval):
        if not isinstance(node, ast.For) or acc_var not in env or getattr(it, '_step_fired', False):
            return _MISSING
        it._step_fired = True          # the outermost element loop only; inner loops run on the concrete element
        p = it.p
        pre = SBytes.fresh('acc')
        p.assume(pre.len <= MAX_VALUE)
        env[acc_var] = pre
        elem, ref = it._step_elem
        it.assign(node.target, elem, env)
        tag = 'step@%d' % node.lineno
        try:
            it.run(node.body, env)
        except (Cont, Brk):
            pass
        except PyExc as e:
            p.prove('%s/valid-element-does-not-raise' % tag, z3.BoolVal(False), detail='raised %s' % e.val.clsname)
            raise LoopCut()
        exp = pre.concat(SBytes.of(ref))
        g = []
        if not same_value(exp, env[acc_var], g, '%s/appends-exactly-the-element-encoding' % tag):
            p.prove('%s/appends-exactly-the-element-encoding' % tag, z3.BoolVal(False), detail='expected %r got %r' % (exp, env[acc_var]))
        elif not g:
            p.prove('%s/appends-exactly-the-element-encoding' % tag, z3.BoolVal(True))
        for (w, t) in g:
            p.prove(w, t)
        raise LoopCut()

    def build(it):
        it.loop_rule = rule
        elem, ref = make_elem(it)
        it._step_elem = (elem, ref)
        f = it.prog.func(qual)
        recv = [f.cls] if f.kind == 'classmethod' else []
        return [], recv + [[elem]] + list(extra_args), {}, None
    def spec(c, *a):
        # reached only when the rule above did not fire (it ends the path with LoopCut): the accumulator was not found
        from pyvc.contracts import Spec
        from pyvc.values import Unsupported
        sp = Spec()
        sp.ret = Any()

        def not_attached():
            if not getattr(c.it, '_step_fired', False):
                raise Unsupported('step contract cannot attach: no for-loop with the accumulator %r' % acc_var)
            return z3.BoolVal(True)
        sp.post = [('step-contract-attached', not_attached)]
        return sp
    return Unit(name, qual, build, spec, kind='step', props=tuple(props))


def encoder_step_units(props):
    """step contracts for the list encoders of C06 (values symbolic, one element of each kind)"""
    from pyvc import strings as STR
    from specs import S as SP
    from .codec_units import sym_int
    out = []

    def community(it):
        from .mp_units import sym_digits, Addr
        a, b = sym_digits(it, 'c_hi', 2), sym_digits(it, 'c_lo', 2)
        Addr(list(a.octs) + list(b.octs))        # registers the digits of the 32-bit value hi * 65536 + lo
        return STR.concat([STR.dec(a), ':', STR.dec(b)]), SP.cat(SP.be(a, 2), SP.be(b, 2))
    out.append(acc_step_unit('Community.construct[step]', A + 'community.Community.construct', 'community_hex', community, props))

    def large(it):
        a, b, c = (sym_int(it, n, 0, 2 ** 32 - 1) for n in ('lc_a', 'lc_b', 'lc_c'))
        return STR.concat([STR.dec(a), ':', STR.dec(b), ':', STR.dec(c)]), SP.cat(SP.be(a, 4), SP.be(b, 4), SP.be(c, 4))
    out.append(acc_step_unit('LargeCommunity.construct[step]', A + 'largecommunity.LargeCommunity.construct', 'large_community_hex', large, props))

    def cluster(it):
        ip = sym_int(it, 'cl_id', 0, 2 ** 32 - 1)
        return STR.ip4(ip), SP.be(ip, 4)
    out.append(acc_step_unit('ClusterList.construct[step]', A + 'clusterlist.ClusterList.construct', 'cluster_raw', cluster, props))

    for asn4 in (False, True):
        def segment(it, asn4=asn4):
            w = 4 if asn4 else 2
            st = it.p.concretize(sym_int(it, 'seg_type', 1, 4).t, what='segment type')
            n = it.p.concretize(sym_int(it, 'seg_count', 0, 3).t, what='segment size')
            asns = [sym_int(it, 'asn%d' % i, 0, 2 ** (8 * w) - 1) for i in range(n)]
            return (st, asns), SP.cat(SP.be(st, 1), SP.be(n, 1), *[SP.be(x, w) for x in asns])
        out.append(acc_step_unit('ASPath.construct[step%s]' % (' asn4' if asn4 else ''), A + 'aspath.ASPath.construct', 'as_path_raw',
                                 segment, props, extra_args=(asn4,)))
    return out
