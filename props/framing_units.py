"""Attribute-TLV framing of the list-valued attribute encoders for lists of ANY length (unbounded).

The element loops are abstracted (for-loop rule of the light mode: what the loop assigns is havoc'd — an accumulated
octet string becomes an arbitrary octet string of arbitrary length — and the body is run once on an arbitrary element),
so the contract is on the code AFTER the loops: whatever value octets V were accumulated,
    result == flags || type || length || V   with  flags = FLAG (+ Extended Length iff the length field has 2 octets),
    the length field == len(V), nothing follows.
`strict`: a struct.error (length does not fit one octet) is not an acceptable outcome (C06: every in-range list
round-trips); otherwise any error outcome is accepted (C08: construction fails with an error, never malformed)."""
import z3
from pyvc.values import SNum, SBytes, Opaque, OpaqueSeq, Obj
from pyvc.contracts import Spec, Any
from pyvc.driver import Unit

A = 'yabgp.message.attribute.'
ENCODERS = [
    # (qualname of the class, FLAG, type code, extra positional args)
    (A + 'aspath.ASPath', 0x40, 2, [False]),
    (A + 'aspath.ASPath', 0x40, 2, [True]),
    (A + 'community.Community', 0xC0, 8, []),
    (A + 'extcommunity.ExtCommunity', 0xC0, 16, []),
    (A + 'largecommunity.LargeCommunity', 0xC0, 32, []),
    (A + 'clusterlist.ClusterList', 0x80, 10, []),
]
YABGP_ERRORS = ('UpdateMessageError', 'ConstructAttributeFailed', 'OpaqueException', 'AssertionError', 'ValueError', 'TypeError',
                'KeyError', 'IndexError', 'AttributeError', 'AddrFormatError')


def wf_tlv(got, flag, code):
    """z3 term: `got` is one well-formed path attribute with the category flags and type code"""
    if got is None:
        return True         # nothing emitted for this attribute
    if not isinstance(got, (bytes, SBytes)):
        return False
    b = SBytes.of(got)
    n = b.len
    f0, t0 = b.at(0), b.at(1)
    ext = (f0 == flag + 0x10)
    short_form = z3.And(f0 == flag, n == 3 + b.at(2))
    long_form = z3.And(ext, n >= 4, n == 4 + b.at(2) * 256 + b.at(3))
    return z3.And(n >= 3, t0 == code, z3.Or(short_form, long_form))


MAX_VALUE = 4096      # a BGP message is at most 4096 octets (RFC 4271): no attribute value is longer


def loop_rule(it, node, env, itval):
    """for-loops over the unknown list: the light-mode abstraction, plus the stated size assumption on what they accumulate"""
    import ast
    from pyvc.interp import _MISSING
    if not isinstance(node, ast.For) or not isinstance(itval, Opaque):
        return _MISSING
    it.for_opaque(node, env, itval)
    for nm, v in list(env.items()):
        if isinstance(v, SBytes):
            it.p.assume(v.len <= MAX_VALUE)
    return None


def framing_units(props, strict):
    out = []
    for (cq, flag, code, extra) in ENCODERS:
        qual = cq + '.construct'

        def build(it, cq=cq, extra=extra):
            cls = it.prog.func(cq)
            value = OpaqueSeq(z3.Int('n_items'), 'the list to encode', 'list')
            it.p.assume(z3.Int('n_items') >= 0)
            return [], [cls, value] + list(extra), {}, None

        def spec(c, *a, flag=flag, code=code, cq=cq):
            # the category bits are the business of the value units / the flag lemma: framing takes the class constant
            flag = int(c.it.prog.func(cq).lookup('FLAG'))
            sp = Spec()
            sp.ret = Any(lambda got: wf_tlv(got, flag, code), 'one well-formed attribute TLV (length field == value octets, Extended Length iff 2-octet length)')
            sp.element_errors_ok = True      # an error raised for some element of the list is a value rejection, not framing
            sp.may_raise = YABGP_ERRORS + (() if strict else ('struct.error', 'error'))
            return sp
        label = '%s.construct[framing%s]' % (cq.split('.')[-1], ' asn4' if extra == [True] else '')
        out.append(Unit(label, qual, build, spec, kind='codec', props=props, verify_kw={'light': True, 'loop_rule': loop_rule}))
    return out
