"""C07 — Multiprotocol NLRI round trip for every family both encoded and decoded."""
from .common import *
from . import mp_units as MU

ID = 'C07'


def run(tier, seed, only=None):
    prog = pyvc.make_program()
    install_handler_model(prog.models)
    known = load_known()
    run = Run(ID, tier, seed)
    run.trusted = [T3, T4, T5, T6]
    run.assumptions = [T3, T4, LOGGING, MU.__doc__.split('\n\n')[1].replace('\n', ' ')]
    for u in MU.units((ID,), tier):
        if only and u.name not in only:
            continue
        run.run_unit(u, prog)
        run.vacuity_check(u)
    run.triage_all(known)
    run.replay_findings()
    run.witness_check(cap=None if tier == 'thorough' else 40)
    return run.finish(known)
