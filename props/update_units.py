"""Verification units for UPDATE and the standard path attributes (C06, C08, C09, C15).

Shapes (number of list elements, which attributes are present) are enumerated; every field VALUE is symbolic.
Unbounded list lengths are covered by the per-iteration step units (decoder-while rule) and by C11.
"""
import z3
from pyvc.values import SNum, SBool, SBytes, Opaque, mk_num, to_term, Infeasible
from pyvc import strings as STR
from pyvc.strings import SStr
from specs import attrs as A, S as SP, wire
from .codec_units import CodecUnit, sym_int, any_int

AT = 'yabgp.message.attribute.'
UME = 'yabgp.common.exception.UpdateMessageError'
ERR_ATTR_LEN, ERR_INVALID_ORIGIN, ERR_OPTIONAL_ATTR, ERR_NEXTHOP, ERR_ASPATH, ERR_NETWORK = 5, 6, 9, 8, 11, 10


def ume(sub):
    return 'exc+', (UME, {'sub_error': sub})


def br(it, cond):
    return it.p.branch(cond)


def in_range(it, v, lo, hi):
    if isinstance(v, int):
        return lo <= v <= hi
    return it.p.branch(z3.And(to_term(v) >= lo, to_term(v) <= hi))


def bytes_of_len(it, name, lens):
    """arbitrary octets whose length is one of `lens` (forked)"""
    b = SBytes.fresh(name)
    k = it.p.choose(len(lens), name + '-len')
    it.p.assume(b.len == lens[k])
    return SBytes(lens[k], lambda i, b=b: b.at(i), name=b.name, fn=b.fn)


def const_names(it):
    g = it.prog.module('yabgp.common.constants').g
    return g['WELL_KNOW_COMMUNITY_INT_2_STR'], g['WELL_KNOW_COMMUNITY_STR_2_INT']


def units(props=('C06', 'C08', 'C09')):
    us = []
    P6 = tuple(p for p in props)

    def U(name, qual, args, expect, **kw):
        u = CodecUnit(name, qual, args, expect, props=P6, **kw)
        us.append(u)
        return u

    # ---------------- ORIGIN
    def origin_c(it, value):
        if in_range(it, value, 0, 2):
            return 'ret', A.origin_enc(value)
        return ume(ERR_INVALID_ORIGIN)
    U('Origin.construct', AT + 'origin.Origin.construct', lambda it: [any_int(it, 'value')], origin_c)

    def origin_p(it, value):
        b = SBytes.of(value)
        if br(it, b.len == 1):
            v = mk_num(b.at(0))
            if in_range(it, v, 0, 2):
                return 'ret', v
            return ume(ERR_INVALID_ORIGIN)
        if br(it, b.len == 0):
            return 'exc', 'TypeError'
        return 'any', None            # a longer ORIGIN is not among the malformations the property lists
    U('Origin.parse', AT + 'origin.Origin.parse', lambda it: [SBytes.fresh('value')], origin_p)

    # ---------------- MED / LOCAL_PREF
    for cls, mod, code, enc in (('MED', 'med', 4, A.med_enc), ('LocalPreference', 'localpref', 5, A.local_pref_enc)):
        def c(it, value, enc=enc):
            if in_range(it, value, 0, 2 ** 32 - 1):
                return 'ret', enc(value)
            return ume(ERR_ATTR_LEN)

        def p(it, value):
            b = SBytes.of(value)
            if br(it, b.len == 4):
                return 'ret', mk_num(b.be_int(0, 4))
            return ume(ERR_ATTR_LEN)
        U('%s.construct' % cls, AT + '%s.%s.construct' % (mod, cls), lambda it: [any_int(it, 'value')], c)
        U('%s.parse' % cls, AT + '%s.%s.parse' % (mod, cls), lambda it: [SBytes.fresh('value')], p)

    # ---------------- NEXT_HOP / ORIGINATOR_ID  (IPv4 text <-> 4 octets)
    def ip_text_arg(it):
        return [STR.ip4(sym_int(it, 'ip', 0, 2 ** 32 - 1))]

    def nh_c(it, value):
        return 'ret', A.next_hop_enc(mk_num(value.parts[0].t))
    U('NextHop.construct', AT + 'nexthop.NextHop.construct', ip_text_arg, nh_c)

    def nh_p(it, value):
        b = SBytes.of(value)
        if br(it, b.len == 4):
            return 'ret', STR.ip4(mk_num(b.be_int(0, 4)))
        if br(it, b.len % 4 != 0):
            return ume(ERR_ATTR_LEN)
        return 'any', None            # 0, 8, 12 ... octets: RFC says 4; not decided here (see C09 notes)
    U('NextHop.parse', AT + 'nexthop.NextHop.parse', lambda it: [SBytes.fresh('value')], nh_p)

    def oid_c(it, value):
        return 'ret', A.originator_id_enc(mk_num(value.parts[0].t))
    U('OriginatorID.construct', AT + 'originatorid.OriginatorID.construct', ip_text_arg, oid_c)

    def oid_p(it, value):
        b = SBytes.of(value)
        if br(it, b.len == 4):
            return 'ret', STR.ip4(mk_num(b.be_int(0, 4)))
        return ume(ERR_ATTR_LEN)
    U('OriginatorID.parse', AT + 'originatorid.OriginatorID.parse', lambda it: [SBytes.fresh('value')], oid_p)

    # ---------------- ATOMIC_AGGREGATE
    def aa_c(it, value):
        return 'ret', A.atomic_aggregate_enc()
    U('AtomicAggregate.construct', AT + 'atomicaggregate.AtomicAggregate.construct', lambda it: [''], aa_c)

    def aa_p(it, value):
        if br(it, SBytes.of(value).len == 0):
            return 'ret', ''
        return ume(ERR_OPTIONAL_ATTR)
    U('AtomicAggregate.parse', AT + 'atomicaggregate.AtomicAggregate.parse', lambda it: [SBytes.fresh('value')], aa_p)

    # ---------------- AGGREGATOR
    def agg_args(it):
        return [(any_int(it, 'asn'), STR.ip4(sym_int(it, 'ip', 0, 2 ** 32 - 1))), SBool(z3.Bool('asn4'))]

    def agg_c(it, value, asn4):
        a4 = it.truth(asn4)
        asn, ip = value
        if in_range(it, asn, 0, 2 ** 32 - 1 if a4 else 65535):
            return 'ret', A.aggregator_enc(asn, mk_num(ip.parts[0].t), a4)
        return ume(ERR_ATTR_LEN)
    U('Aggregator.construct', AT + 'aggregator.Aggregator.construct', agg_args, agg_c)

    def agg_p(it, value, asn4):
        a4 = it.truth(asn4)
        b = SBytes.of(value)
        w = 4 if a4 else 2
        if br(it, b.len == w + 4):
            return 'ret', (mk_num(b.be_int(0, w)), STR.ip4(mk_num(b.be_int(w, 4))))
        return ume(ERR_ATTR_LEN)
    U('Aggregator.parse', AT + 'aggregator.Aggregator.parse', lambda it: [SBytes.fresh('value'), SBool(z3.Bool('asn4'))], agg_p)

    # ---------------- AS_PATH
    def aspath_shapes(it):
        """segment shapes: [] | [k] | [k1, k2] ASNs per segment, plus one 130-ASN segment (extended length)"""
        shapes = [[], [0], [1], [2], [1, 2], [2, 1], [3], [130]]
        k = it.p.choose(len(shapes), 'aspath-shape')
        segs = []
        for si, n in enumerate(shapes[k]):
            t = sym_int(it, 'seg%d_type' % si, 1, 4)
            segs.append((t, [any_int(it, 'as%d_%d' % (si, j)) for j in range(n)]))
        return [segs, SBool(z3.Bool('asn4'))]

    def aspath_c(it, value, asn4):
        a4 = it.truth(asn4)
        hi = 2 ** 32 - 1 if a4 else 65535
        for (t, asns) in value:
            for a in asns:
                if not in_range(it, a, 0, hi):
                    return 'exc', 'struct.error'
        return 'ret', A.as_path_enc(value, a4)
    U('ASPath.construct', AT + 'aspath.ASPath.construct', aspath_shapes, aspath_c, max_paths=20000)

    def aspath_p_args(it):
        """reference encodings of shape-bounded AS_PATHs (valid), plus arbitrary short octet strings"""
        a4 = it.p.branch(z3.Bool('asn4'))
        shapes = [[], [0], [1], [2], [1, 2], [2, 1, 1]]
        k = it.p.choose(len(shapes), 'aspath-shape')
        segs = []
        for si, n in enumerate(shapes[k]):
            t = sym_int(it, 'seg%d_type' % si, 0, 255)
            # AS numbers as sums of their octets (base-256 digit hint): the decoder's byte arithmetic matches structurally
            from .mp_units import sym_digits
            segs.append((t, [sym_digits(it, 'as%d_%d' % (si, j), 4 if a4 else 2) for j in range(n)]))
        it._aspath_in = (segs, a4)
        return [SBytes.of(A.as_path_body(segs, a4)), a4]

    def aspath_p(it, value, asn4):
        if it._aspath_in is None:
            return 'any', None          # arbitrary octets: termination / containment only (C11, C10)
        segs, a4 = it._aspath_in
        for (t, asns) in segs:
            if not in_range(it, t, 1, 4):
                return ume(ERR_ASPATH)
        return 'ret', [(t, list(asns)) for (t, asns) in segs]
    U('ASPath.parse', AT + 'aspath.ASPath.parse', aspath_p_args, aspath_p, concrete_loops=True, max_paths=20000)

    # ---------------- COMMUNITIES
    def comm_c_args(it):
        n = it.p.choose(4, 'n-communities')
        vals = []
        names_i2s, names_s2i = const_names(it)
        for i in range(n):
            if it.p.branch(z3.Bool('wk%d' % i)):
                # a well-known name (each one of the table)
                keys = sorted(names_s2i.keys())
                j = it.p.choose(len(keys), 'wkname%d' % i)
                vals.append(keys[j])
            else:
                vals.append(STR.concat([STR.dec(any_int(it, 'chi%d' % i)), ':', STR.dec(any_int(it, 'clo%d' % i))]))
        return [vals]

    def comm_c(it, value):
        names_i2s, names_s2i = const_names(it)
        ints = []
        for v in value:
            if isinstance(v, str):
                ints.append(names_s2i[v])
            else:
                hi, lo = mk_num(v.parts[0].t), mk_num(v.parts[2].t)
                x = mk_num(to_term(hi) * 65536 + to_term(lo))
                if not in_range(it, x, 0, 2 ** 32 - 1):
                    return ume(ERR_ATTR_LEN)
                ints.append(x)
        return 'ret', A.communities_enc(ints)
    U('Community.construct', AT + 'community.Community.construct', comm_c_args, comm_c, max_paths=20000)

    def comm_p_args(it):
        return [bytes_of_len(it, 'value', [0, 1, 2, 3, 4, 6, 8, 12])]

    def comm_p(it, value):
        b = SBytes.of(value)
        n = b.known_len()
        if n % 4 != 0:
            if n % 2 == 0:
                return 'any', None      # an odd number of 16-bit halves: IndexError inside -> reported as attribute length error
            return ume(ERR_ATTR_LEN)
        names_i2s, names_s2i = const_names(it)
        out = []
        for i in range(n // 4):
            v = mk_num(b.be_int(4 * i, 4))
            wk = None
            for k, nm in names_i2s.items():
                if it.p.branch(to_term(v) == k):
                    wk = nm
                    break
            out.append(wk if wk is not None else A.community_text(v, names_i2s))
        return 'ret', out
    U('Community.parse', AT + 'community.Community.parse', comm_p_args, comm_p, concrete_loops=True, max_paths=20000)

    # ---------------- CLUSTER_LIST
    def cl_c_args(it):
        n = it.p.choose(4, 'n-clusters')
        return [[STR.ip4(sym_int(it, 'cl%d' % i, 0, 2 ** 32 - 1)) for i in range(n)]]

    def cl_c(it, value):
        return 'ret', A.cluster_list_enc([mk_num(v.parts[0].t) for v in value])
    U('ClusterList.construct', AT + 'clusterlist.ClusterList.construct', cl_c_args, cl_c)

    def cl_p(it, value):
        b = SBytes.of(value)
        n = b.known_len()
        if n % 4 != 0:
            return ume(ERR_ATTR_LEN)
        return 'ret', [STR.ip4(mk_num(b.be_int(4 * i, 4))) for i in range(n // 4)]
    U('ClusterList.parse', AT + 'clusterlist.ClusterList.parse', lambda it: [bytes_of_len(it, 'value', [0, 1, 3, 4, 5, 8, 12])],
      cl_p, concrete_loops=True)

    # ---------------- LARGE COMMUNITIES
    def lc_c_args(it):
        n = it.p.choose(3, 'n-large')
        return [[STR.concat([STR.dec(any_int(it, 'lg%d' % i)), ':', STR.dec(any_int(it, 'la%d' % i)), ':',
                             STR.dec(any_int(it, 'lb%d' % i))]) for i in range(n)]]

    def lc_c(it, value):
        tr = []
        for v in value:
            g, a, b = mk_num(v.parts[0].t), mk_num(v.parts[2].t), mk_num(v.parts[4].t)
            for x in (g, a, b):
                if not in_range(it, x, 0, 2 ** 32 - 1):
                    return ume(ERR_ATTR_LEN)
            tr.append((g, a, b))
        return 'ret+', (A.large_communities_enc(tr, flags=emitted_flag(it, 32)), rfc_flag_clause(it, 32))
    U('LargeCommunity.construct', AT + 'largecommunity.LargeCommunity.construct', lc_c_args, lc_c)

    def lc_p(it, value):
        b = SBytes.of(value)
        n = b.known_len()
        if n % 12 != 0:
            return 'any', None if n % 4 == 0 else None
        return 'ret', [A.large_community_text(mk_num(b.be_int(12 * i, 4)), mk_num(b.be_int(12 * i + 4, 4)),
                                              mk_num(b.be_int(12 * i + 8, 4))) for i in range(n // 12)]
    U('LargeCommunity.parse', AT + 'largecommunity.LargeCommunity.parse',
      lambda it: [bytes_of_len(it, 'value', [0, 12, 24])], lc_p, concrete_loops=True)
    return us



UPD = 'yabgp.message.update.Update.'


def octet(addr, k):
    """k-th octet (0 = most significant) of a 32-bit value"""
    if isinstance(addr, int):
        return (addr >> (24 - 8 * k)) & 255
    return mk_num((to_term(addr) / (2 ** (24 - 8 * k))) % 256)


def dotted_prefix_text(addr, plen, len_value=None, octs=None):
    """the decoder's text for <plen, addr>: octets beyond ceil(plen/8) are 0, the last one masked to plen bits"""
    n = (plen + 7) // 8
    parts = []
    for k in range(4):
        if k:
            parts.append('.')
        if k < n - 1 or (k == n - 1 and plen % 8 == 0):
            o = octet(addr, k) if octs is None else mk_num(octs[k])
        elif k == n - 1:
            r = plen % 8
            o = octet(addr, k) if octs is None else mk_num(octs[k])
            o = (o >> (8 - r)) << (8 - r) if isinstance(o, int) else mk_num((to_term(o) / (2 ** (8 - r))) * (2 ** (8 - r)))
        else:
            o = 0
        parts.append(str(o) if isinstance(o, int) else STR.dec(o))
    parts += ['/', str(plen) if len_value is None else STR.dec(len_value)]
    return STR.concat(parts)


def sym_prefix(it, tag, plen=None):
    """(addr term, concrete plen): plen is forked over 0..32 unless given"""
    addr = sym_int(it, 'addr_' + tag, 0, 2 ** 32 - 1)
    if plen is None:
        l = sym_int(it, 'plen_' + tag, 0, 32)
        plen = it.p.concretize(l.t, limit=40, what='prefix length')
    return addr, plen


def update_units(props):
    us = []

    def U(name, qual, args, expect, **kw):
        u = CodecUnit(name, qual, args, expect, props=tuple(props), **kw)
        us.append(u)
        return u

    # ---------------- construct_prefix_v4
    def cp_args(it):
        n = it.p.choose(3, 'n-prefixes')
        ap = it.p.branch(z3.Bool('add_path'))
        pl, raw = [], []
        for i in range(n):
            addr, plen = sym_prefix(it, 'p%d' % i, plen=None if i == 0 else 24)
            text = STR.concat([STR.ip4(addr), '/', str(plen)])
            if ap:
                pid = sym_int(it, 'path_id%d' % i, 0, 2 ** 32 - 1)
                pl.append({'prefix': text, 'path_id': pid})
                raw.append((addr, plen, pid))
            else:
                pl.append(text)
                raw.append((addr, plen, None))
        it._cp_in = raw
        return [pl, ap]

    def cp_expect(it, prefix_list, add_path):
        out = []
        for (addr, plen, pid) in it._cp_in:
            if pid is not None:
                out.append(SP.be(pid, 4))
            out.append(A.prefix4_enc(addr, plen))
        return 'ret', (SP.cat(*out) if out else b'')
    U('Update.construct_prefix_v4', UPD + 'construct_prefix_v4', cp_args, cp_expect, max_paths=20000)

    # ---------------- parse_prefix_list on reference encodings (incl. non-zero trailing bits) + malformations
    def pp_args(it):
        n = it.p.choose(3, 'n-prefixes')
        ap = it.p.branch(z3.Bool('addpath'))
        raw, enc = [], []
        for i in range(n):
            addr, plen = sym_prefix(it, 'p%d' % i, plen=None if i == 0 else 17)
            pid = sym_int(it, 'path_id%d' % i, 0, 2 ** 32 - 1) if ap else None
            raw.append((addr, plen, pid))
            if pid is not None:
                enc.append(SP.be(pid, 4))
            enc.append(A.prefix4_enc(addr, plen))          # host / trailing bits as they are: any value
        it._pp_in = raw
        return [SBytes.of(SP.cat(*enc) if enc else b''), ap]

    def pp_expect(it, data, addpath):
        out = []
        for (addr, plen, pid) in it._pp_in:
            t = dotted_prefix_text(addr, plen)
            out.append({'prefix': t, 'path_id': pid} if pid is not None else t)
        return 'ret', out
    U('Update.parse_prefix_list', UPD + 'parse_prefix_list', pp_args, pp_expect, concrete_loops=True, max_paths=20000)

    def pp_bad_args(it):
        """first prefix length octet > 32"""
        l = sym_int(it, 'bad_plen', 33, 255)
        rest = bytes_of_len(it, 'rest', [0, 1, 4, 5])
        return [SBytes.of(SP.cat(SP.be(l, 1), rest)), False]
    U('Update.parse_prefix_list[length>32]', UPD + 'parse_prefix_list', pp_bad_args, lambda it, d, a: ume(ERR_NETWORK),
      concrete_loops=True)

    # ---------------- Update.construct
    def uc_args(it):
        shape = it.p.concretize(sym_int(it, 'update_shape', 0, 5).t, what='update shape')
        a4 = it.p.branch(z3.Bool('asn4'))
        vals = sym_attr_values(it, a4)
        sets = {0: [1, 2, 3], 1: [1, 2, 3, 4, 5, 6, 7, 8, 9, 10, 32], 2: [], 3: [1, 2, 3, 5], 4: [1], 5: []}[shape]
        attr = {t: attr_api_value(t, vals) for t in sets}
        msg = {}
        raw = {'attrs': [(t, vals) for t in sets], 'nlri': [], 'withdraw': [], 'asn4': a4}
        if sets:
            msg['attr'] = attr
        if shape in (0, 1, 3):
            addr, plen = sym_prefix(it, 'n0')
            msg['nlri'] = [STR.concat([STR.ip4(addr), '/', str(plen)])]
            raw['nlri'].append((addr, plen))
            if shape == 1:
                addr2 = sym_int(it, 'addr_n1', 0, 2 ** 32 - 1)
                msg['nlri'].append(STR.concat([STR.ip4(addr2), '/', '24']))
                raw['nlri'].append((addr2, 24))
        if shape in (2, 3):
            addr, plen = sym_prefix(it, 'w0', plen=None if shape == 2 else 19)
            msg['withdraw'] = [STR.concat([STR.ip4(addr), '/', str(plen)])]
            raw['withdraw'].append((addr, plen))
        it._uc_in = raw
        return [msg, a4, False]

    def uc_expect(it, msg_dict, asn4, addpath):
        raw = it._uc_in
        if not raw['attrs'] and not raw['nlri'] and not raw['withdraw']:
            return 'ret', None
        attrs = SP.cat(*[enc_attr(t, v, raw['asn4'], flags=(emitted_flag(it, t) if t in FLAG_CLASS else None))
                         for (t, v) in raw['attrs']]) if raw['attrs'] else b''
        W = SP.cat(*[A.prefix4_enc(a, l) for (a, l) in raw['withdraw']]) if raw['withdraw'] else b''
        N = SP.cat(*[A.prefix4_enc(a, l) for (a, l) in raw['nlri']]) if raw['nlri'] else b''
        extra = [c for (t, v) in raw['attrs'] if t in FLAG_CLASS for c in rfc_flag_clause(it, t)]
        return 'ret+', (wire.header(wire.T_UPDATE, A.update_body(W, attrs, N)), extra)
    U('Update.construct', UPD + 'construct', uc_args, uc_expect, max_paths=20000)

    # ---------------- Update.parse on reference encodings with the legal variants
    def up_args(it):
        variant = it.p.concretize(sym_int(it, 'parse_variant', 0, 6).t, what='parse variant')
        a4 = it.p.branch(z3.Bool('asn4'))
        vals = sym_attr_values(it, a4)
        names_i2s, _ = const_names(it)
        it.p.assume(z3.And([to_term(vals['comm']) != k for k in names_i2s]))
        order = [1, 2, 3, 4, 5, 6, 7, 8, 9, 10, 32]
        ext = set()
        extra = []
        ap = False
        if variant == 1:
            order = list(reversed(order))                      # any attribute order
        elif variant == 2:
            ext = {1, 4, 3}                                     # extended-length flag on short attributes
        elif variant == 3:
            order = [1, 2, 3]
            extra = [17, 18]                                    # AS4_PATH / AS4_AGGREGATOR are always 4-octet
        elif variant == 4:
            order = [3, 1, 2, 8]
            ap = True                                           # add-path identifiers on the IPv4 NLRI
        elif variant == 5:
            order = [1, 2, 3]
        elif variant == 6:
            order = [2, 5, 1, 3, 10]
        enc = []
        for t in order:
            enc.append(enc_attr(t, vals, a4, force_extended=(t in ext)))
        for t in extra:
            enc.append(enc_attr(t, vals, True))
        nl, wd, nraw, wraw = [], [], [], []
        # every prefix length is covered by the parse_prefix_list unit; here one representative length per variant
        addr, plen = sym_prefix(it, 'n0', plen=[24, 17, 32, 0, 9, 30, 1][variant])
        pid = sym_int(it, 'pid0', 0, 2 ** 32 - 1) if ap else None
        nl.append(SP.cat(SP.be(pid, 4), A.prefix4_enc(addr, plen)) if ap else A.prefix4_enc(addr, plen))
        nraw.append((addr, plen, pid))
        if variant in (0, 5):
            waddr = sym_int(it, 'addr_w0', 0, 2 ** 32 - 1)
            wd.append(A.prefix4_enc(waddr, 22))
            wraw.append((waddr, 22, None))
        body = A.update_body(SP.cat(*wd) if wd else b'', SP.cat(*enc), SP.cat(*nl))
        it._up_in = {'order': order + extra, 'vals': vals, 'a4': a4, 'nlri': nraw, 'withdraw': wraw, 'ap': ap}
        t = SNum(z3.Real('t'))
        it._up_t = t
        return [t, SBytes.of(body), a4, ({'ipv4': True} if ap else {})]

    def up_expect(it, t, msg_hex, asn4, afi_add_path):
        r = it._up_in
        attr = {}
        for tc in r['order']:
            attr[tc] = dec_attr_value(tc, r['vals'], r['a4'])

        def ptext(x):
            a, l, pid = x
            tx = dotted_prefix_text(a, l)
            return {'prefix': tx, 'path_id': pid} if pid is not None else tx
        return 'ret', {'withdraw': [ptext(x) for x in r['withdraw']], 'attr': attr, 'nlri': [ptext(x) for x in r['nlri']],
                       'time': t, 'hex': msg_hex, 'sub_error': None, 'err_data': None}
    U('Update.parse', UPD + 'parse', up_args, up_expect, concrete_loops=True, max_paths=30000)

    # ---------------- error half (C09): a listed malformation yields an error sub-code, not a value
    def ue_args(it):
        kind = it.p.choose(4, 'malformation')
        vals = sym_attr_values(it, False)
        if kind == 0:
            bad = A.attr(1, SP.be(sym_int(it, 'bad_origin', 3, 255), 1))
            sub = ERR_INVALID_ORIGIN
        elif kind == 1:
            bad = A.attr(2, SP.cat(SP.be(sym_int(it, 'bad_seg', 5, 255), 1), b'\x01', SP.be(vals['as'][0], 2)))
            sub = ERR_ASPATH
        elif kind == 2:
            bad = A.attr(4, SP.be(vals['med'], 4)[:3] if isinstance(SP.be(vals['med'], 4), bytes) else SBytes.of(SP.be(vals['med'], 4)).slice(0, 3))
            sub = ERR_ATTR_LEN
        else:
            bad = A.attr(9, SP.cat(SP.be(vals['oid'], 4), b'\x00'))
            sub = ERR_ATTR_LEN
        it._ue_sub = sub
        body = A.update_body(b'', SP.cat(enc_attr(3, vals, False), bad), A.prefix4_enc(vals['nh'], 24))
        return [SNum(z3.Real('t')), SBytes.of(body), False, {}]

    def ue_expect(it, t, msg_hex, asn4, afi_add_path):
        from pyvc.contracts import ANY
        return 'ret', {'withdraw': [], 'attr': ANY, 'nlri': ANY, 'time': t, 'hex': msg_hex, 'sub_error': it._ue_sub,
                       'err_data': ANY}
    U('Update.parse[malformed]', UPD + 'parse', ue_args, ue_expect, concrete_loops=True)
    return us


def sym_attr_values(it, a4):
    """attribute field values; the fixed-width ones as sums of their octets (base-256 digit hints), so that neither direction of
    a codec makes the solver undo div/mod chains"""
    from .mp_units import sym_digits
    w = 4 if a4 else 2
    D = lambda name, width: sym_digits(it, name, width)
    return {'origin': sym_int(it, 'v_origin', 0, 2), 'as': [D('v_as%d' % i, w) for i in range(2)],
            'seg': sym_int(it, 'v_seg', 1, 4), 'nh': D('v_nh', 4), 'med': D('v_med', 4),
            'lp': D('v_lp', 4), 'agg_as': D('v_agg_as', w),
            'agg_ip': D('v_agg_ip', 4), 'comm': D('v_comm', 4),
            'oid': D('v_oid', 4), 'cl': D('v_cl', 4),
            'lc': [D('v_lc%d' % i, 4) for i in range(3)],
            'as4': [D('v_as4_%d' % i, 4) for i in range(2)],
            'agg4_as': D('v_agg4_as', 4)}


def comm_text_sym(v):
    octs = getattr(v, 'octs', None)
    if octs is not None and len(octs) == 4:
        # the two halves straight from the octets (the value is registered as their base-256 sum)
        return STR.concat([STR.dec(mk_num(octs[0] * 256 + octs[1])), ':', STR.dec(mk_num(octs[2] * 256 + octs[3]))])
    t = to_term(v)
    return STR.concat([STR.dec(mk_num(t / 65536)), ':', STR.dec(mk_num(t % 65536))])


def attr_api_value(t, v):
    """the value a caller passes to Update.construct for attribute type t"""
    if t == 1:
        return v['origin']
    if t == 2:
        return [(v['seg'], list(v['as']))]
    if t == 3:
        return STR.ip4(v['nh'])
    if t == 4:
        return v['med']
    if t == 5:
        return v['lp']
    if t == 6:
        return ''
    if t == 7:
        return (v['agg_as'], STR.ip4(v['agg_ip']))
    if t == 8:
        return [comm_text_sym(v['comm'])]
    if t == 9:
        return STR.ip4(v['oid'])
    if t == 10:
        return [STR.ip4(v['cl'])]
    if t == 32:
        return [A.large_community_text(*v['lc'])]
    raise ValueError(t)


def dec_attr_value(t, v, a4):
    """what the decoder must report for attribute type t"""
    if t == 17:
        return [(v['seg'], list(v['as4']))]
    if t == 18:
        return (v['agg4_as'], STR.ip4(v['agg_ip']))
    return attr_api_value(t, v)


FLAG_CLASS = {32: 'yabgp.message.attribute.largecommunity.LargeCommunity'}


def emitted_flag(it, t):
    """the flag constant the encoder class emits (read from the class on disk); whether it is the RFC category is a
    separately named clause (rfc_flag_clause), so that the rest of the encoding is proved independently of it"""
    return int(it.prog.func(FLAG_CLASS[t]).lookup('FLAG'))


def rfc_flag_clause(it, t):
    fl = emitted_flag(it, t)
    return [('rfc-flag-octet', z3.BoolVal(fl & 0xE0 == A.CATEGORY[t]),
             'attribute type %d is emitted with flags %#x, RFC category %#x' % (t, fl, A.CATEGORY[t]))]


def enc_attr(t, v, a4, force_extended=False, flags=None):
    if t == 1:
        body = SP.be(v['origin'], 1)
    elif t == 2:
        body = A.as_path_body([(v['seg'], v['as'])], a4)
    elif t == 3:
        body = SP.be(v['nh'], 4)
    elif t == 4:
        body = SP.be(v['med'], 4)
    elif t == 5:
        body = SP.be(v['lp'], 4)
    elif t == 6:
        body = b''
    elif t == 7:
        body = SP.cat(SP.be(v['agg_as'], 4 if a4 else 2), SP.be(v['agg_ip'], 4))
    elif t == 8:
        body = SP.be(v['comm'], 4)
    elif t == 9:
        body = SP.be(v['oid'], 4)
    elif t == 10:
        body = SP.be(v['cl'], 4)
    elif t == 32:
        body = SP.cat(*[SP.be(x, 4) for x in v['lc']])
    elif t == 17:
        body = A.as_path_body([(v['seg'], v['as4'])], True)
    elif t == 18:
        body = SP.cat(SP.be(v['agg4_as'], 4), SP.be(v['agg_ip'], 4))
    else:
        raise ValueError(t)
    return A.attr(t, body, force_extended=force_extended, flags=flags)


BOUND_NOTE = ('list-valued attributes and prefix lists are verified for enumerated shapes (0..3 elements per list, AS_PATH up to 3 '
              'segments plus one 130-AS segment crossing the 255-octet boundary; prefix lists 0..2 prefixes, the first with every '
              'length 0..32); every element VALUE is symbolic; unbounded list lengths rest on the per-iteration step units and on C11')
BOUND = {'rule': 'shape enumeration: list lengths 0..3, all field values symbolic', 'bound': 'list length <= 3 (AS_PATH: one 130-element segment)'}


def lemmas(prog):
    return []


# ================================================================ unbounded: per-iteration step units
from pyvc.interp import PyExc, _MISSING, Func, BoundMethod, BEXC, is_subclass
from pyvc.values import LoopCut, Opaque, Obj
from pyvc.contracts import same_value
from pyvc.driver import Unit
import ast as _ast


def _prove_same(p, name, exp, got):
    g = []
    if not same_value(exp, got, g, name):
        p.prove(name, z3.BoolVal(False), detail='expected %r got %r' % (exp, got))
        return
    if not g:
        p.prove(name, z3.BoolVal(True))
    for (w, t) in g:
        p.prove(w, t)


def _need_locals(env, names, what):
    """a step contract talks about the loop's state through the function's local names; if they are not there (a
    harmless rename), the contract cannot attach: undecided, never an alarm"""
    missing = [n for n in names if n not in env]
    if missing:
        from pyvc.values import Unsupported
        raise Unsupported('%s: step contract cannot attach, local name(s) %s not found' % (what, ', '.join(missing)))


def prefix_step_unit(props):
    """decoder-while rule on the real loop body of Update.parse_prefix_list: from an ARBITRARY non-empty
    remaining string the body appends exactly the RFC element, leaves exactly the rest, and raises exactly for
    a length > 32; a truncated last element is unconstrained (not among the malformations the property lists)."""
    qual = UPD + 'parse_prefix_list'

    def rule(it, node, env, itval):
        if not isinstance(node, _ast.While):
            return _MISSING
        p = it.p
        _need_locals(env, ('postfix', 'prefixes', 'addpath'), 'parse_prefix_list')
        pre = SBytes.fresh('postfix')
        p.assume(pre.len <= 4096)
        env['postfix'] = pre
        env['prefixes'] = []
        ap = it.truth(env['addpath'])
        if not it.truth(it.ev(node.test, env)):
            return None
        off = 4 if ap else 0
        tag = 'step@%d' % node.lineno
        raised = None
        try:
            it.run(node.body, env)
        except PyExc as e:
            raised = e.val
        if not p.branch(pre.len >= off + 1):
            raise LoopCut()                        # truncated before the length octet: unconstrained
        lt = pre.at(off)
        if p.branch(lt > 32):
            ok = raised is not None and raised.clsname == 'UpdateMessageError'
            p.prove('%s/length>32-raises-UpdateMessageError' % tag, z3.BoolVal(bool(ok)),
                    detail='raised %s' % (raised.clsname if raised is not None else 'nothing'))
            if ok:
                _prove_same(p, '%s/length>32-subcode' % tag, ERR_NETWORK, raised.f.get('sub_error'))
            raise LoopCut()
        l = p.concretize(lt, limit=40, what='prefix length')
        n = (l + 7) // 8
        if not p.branch(pre.len >= off + 1 + n):
            raise LoopCut()                        # truncated element: unconstrained
        if raised is not None:
            p.prove('%s/well-formed-element-does-not-raise' % tag, z3.BoolVal(False), detail='raised %s' % raised.clsname)
            raise LoopCut()
        addr = mk_num(sum([pre.at(off + 1 + k) * (2 ** (24 - 8 * k)) for k in range(n)], z3.IntVal(0)))
        # the element's own octets are used directly (not re-derived from their sum by div/mod: the solver was unstable on that)
        text = dotted_prefix_text(addr, l, len_value=SNum(lt), octs=[pre.at(off + 1 + k) for k in range(n)] + [z3.IntVal(0)] * 4)
        exp = {'prefix': text, 'path_id': mk_num(pre.be_int(0, 4))} if ap else text
        _prove_same(p, '%s/appends-exactly-the-element' % tag, [exp], env['prefixes'])
        _prove_same(p, '%s/leaves-exactly-the-rest' % tag, pre.slice(off + 1 + n, None), env['postfix'])
        p.prove('%s/consumes-at-least-one-octet' % tag, SBytes.of(env['postfix']).len < pre.len)
        raise LoopCut()

    def build(it):
        it.loop_rule = rule
        return [], [SBytes.fresh('data'), SBool(z3.Bool('addpath'))], {}, None
    return Unit('Update.parse_prefix_list[step]', qual, build, (lambda c, *a: None), kind='step', props=tuple(props))


ATTR_PARSERS = {1: 'Origin', 2: 'ASPath', 3: 'NextHop', 4: 'MED', 5: 'LocalPreference', 6: 'AtomicAggregate', 7: 'Aggregator',
                8: 'Community', 9: 'OriginatorID', 10: 'ClusterList', 17: 'ASPath', 18: 'Aggregator', 32: 'LargeCommunity',
                14: 'MpReachNLRI', 15: 'MpUnReachNLRI', 16: 'ExtCommunity', 22: 'PMSITunnel', 40: 'BGPPrefixSID'}


def attr_header_step_unit(props):
    """decoder-while rule on the real loop body of Update.parse_attributes: from an arbitrary remaining string the
    body reads flags / type / 1- or 2-octet length as RFC 4271 4.3 says (extended-length bit), hands exactly the value
    octets to the decoder of that type (AS4_PATH / AS4_AGGREGATOR always 4-octet, AS_PATH / AGGREGATOR per the
    session mode), stores the result under the type code only, and leaves exactly the rest."""
    qual = UPD + 'parse_attributes'

    def build(it):
        calls = []

        def hook(it2, fv, args, kw):
            f = fv.func if isinstance(fv, BoundMethod) else (fv if isinstance(fv, Func) else None)
            if f is None or not f.module.name.startswith('yabgp.message.attribute'):
                return False, None
            if f.node.name in ('parse', 'unpack') and f.cls is not None:
                calls.append((f.cls.name, list(args), dict(kw)))
                if f.cls.name == 'MpReachNLRI':
                    return True, {'afi_safi': Opaque('afi_safi'), 'nexthop': Opaque('nexthop'), 'nlri': [None]}
                return True, Opaque('decoded by %s' % f.cls.name)
            if f.node.name == 'signal_evpn_overlay':
                return True, {'evpn': False, 'encap_ec': False}
            return False, None
        it.call_hook = hook

        def rule(it2, node, env, itval):
            if not isinstance(node, _ast.While):
                return _MISSING
            p = it2.p
            _need_locals(env, ('postfix', 'attributes', 'asn4'), 'parse_attributes')
            pre = SBytes.fresh('postfix')
            p.assume(pre.len <= 4096)
            env['postfix'] = pre
            env['attributes'] = {}
            del calls[:]
            if not it2.truth(it2.ev(node.test, env)):
                return None
            tag = 'step@%d' % node.lineno
            raised = None
            from pyvc.interp import Cont, Brk
            try:
                it2.run(node.body, env)
            except Cont:
                pass
            except PyExc as e:
                raised = e.val
            if not p.branch(pre.len >= 3):
                raise LoopCut()
            flags, tcode = pre.at(0), pre.at(1)
            ext = p.branch((flags / 16) % 2 == 1)
            if ext and not p.branch(pre.len >= 4):
                raise LoopCut()
            alen = pre.be_int(2, 2) if ext else pre.at(2)
            hdr = 4 if ext else 3
            if not p.branch(pre.len >= hdr + alen):
                raise LoopCut()                    # truncated attribute: unconstrained
            value = pre.slice(hdr, SNum(hdr + alen))
            rest = pre.slice(SNum(hdr + alen), None)
            known = sorted(ATTR_PARSERS)
            tc = None
            for k in known + [29]:
                if p.branch(tcode == k):
                    tc = k
                    break
            if raised is not None:
                p.prove('%s/header-step-does-not-raise' % tag, z3.BoolVal(False), detail='raised %s' % raised.clsname)
                raise LoopCut()
            _prove_same(p, '%s/leaves-exactly-the-rest' % tag, rest, env['postfix'])
            p.prove('%s/consumes-at-least-three-octets' % tag, SBytes.of(env['postfix']).len < pre.len)
            if tc == 29:
                raise LoopCut()                    # BGP-LS attribute: deferred coupling, handled after the loop
            if tc is None:
                # unknown attribute: kept as hex text under its own type code
                keys = list(env['attributes'].keys())
                p.prove('%s/unknown-type-stored-under-its-code' % tag, z3.BoolVal(len(keys) == 1))
                raise LoopCut()
            attrs = env['attributes']
            keys = list(attrs.keys())
            if len(keys) == 1 and type(keys[0]).__name__ == 'SymKey':
                p.prove('%s/result-stored-under-the-type-code-only' % tag, to_term(keys[0].v) == tc)
            else:
                p.prove('%s/result-stored-under-the-type-code-only' % tag, z3.BoolVal(keys == [tc]))
            want_cls = ATTR_PARSERS[tc]
            p.prove('%s/dispatches-to-the-decoder-of-the-type' % tag,
                    z3.BoolVal(len(calls) == 1 and calls[0][0] == want_cls), detail='calls %r' % [c[0] for c in calls])
            if len(calls) == 1:
                cname, cargs, ckw = calls[0]
                got_value = ckw.get('value', ckw.get('data', cargs[1] if len(cargs) > 1 else None))
                _prove_same(p, '%s/decoder-gets-exactly-the-value-octets' % tag, value, got_value)
                if tc in (2, 7, 17, 18):
                    want = True if tc in (17, 18) else env['asn4']
                    _prove_same(p, '%s/AS-width-flag' % tag, want, ckw.get('asn4', cargs[2] if len(cargs) > 2 else None))
            raise LoopCut()
        it.loop_rule = rule
        return [], [SBytes.fresh('data'), SBool(z3.Bool('asn4')), {}], {}, None
    return Unit('Update.parse_attributes[step]', qual, build, (lambda c, *a: None), kind='step', props=tuple(props))


def step_units(props):
    return [prefix_step_unit(props), attr_header_step_unit(props)]


# ================================================================ coupled attributes: position must not matter
def coupled_order_units(props):
    """Update.parse_attributes on a stream holding two COUPLED attributes, in both orders.  The element decoders are
    abstracted (call hook: MpReachNLRI.parse reports a BGP-LS NLRI with protocol id PID; LinkState.unpack / PMSITunnel.parse
    are recorded with their arguments).  Contract (C15): whatever the position of the LINK_STATE attribute (29), it is decoded
    exactly once, from exactly its own octets, with the protocol id of the message's BGP-LS NLRI."""
    qual = UPD + 'parse_attributes'
    out = []
    for order in ('LINK_STATE-first', 'MP_REACH-first'):
        def build(it, order=order):
            calls = []
            pid = SNum(z3.Int('bgpls_protocol_id'))
            it.p.assume(z3.And(pid.t >= 1, pid.t <= 255))

            def hook(it2, fv, args, kw):
                f = fv.func if isinstance(fv, BoundMethod) else (fv if isinstance(fv, Func) else None)
                if f is None or not f.module.name.startswith('yabgp.message.attribute'):
                    return False, None
                if f.node.name in ('parse', 'unpack') and f.cls is not None:
                    calls.append((f.cls.name, list(args), dict(kw)))
                    if f.cls.name == 'MpReachNLRI':
                        return True, {'afi_safi': (16388, 71), 'nexthop': '10.0.0.1', 'nlri': [{'type': 'link', 'protocol_id': pid}]}
                    return True, Opaque('decoded by %s' % f.cls.name)
                if f.node.name == 'signal_evpn_overlay':
                    return True, {'evpn': False, 'encap_ec': False}
                return False, None
            it.call_hook = hook
            it.concrete_loops = True
            ls_val = SBytes.fresh('ls_value')
            n = it.p.concretize(ls_val.len, limit=5, what='LINK_STATE value length') if it.p.branch(ls_val.len <= 3) else None
            if n is None:
                raise Infeasible()
            mp_val = SBytes.fresh('mp_value')
            m = it.p.concretize(mp_val.len, limit=5, what='MP_REACH value length') if it.p.branch(mp_val.len <= 2) else None
            if m is None:
                raise Infeasible()
            ls_val = SBytes(n, ls_val._at)
            mp_val = SBytes(m, mp_val._at)
            ls = A.attr(29, ls_val, flags=0x80)
            mp = A.attr(14, mp_val, flags=0x80)
            data = SP.cat(ls, mp) if order == 'LINK_STATE-first' else SP.cat(mp, ls)
            it._coupled = (calls, pid, ls_val)
            return [], [SBytes.of(data), False, None], {}, None

        def spec(c, data, asn4, afi_add_path):
            from pyvc.contracts import Spec, Any
            calls, pid, ls_val = c.it._coupled
            sp = Spec()
            # errors of the (abstracted) element decoders are a possible outcome; the contract is about a message that decodes
            sp.may_raise = ('UpdateMessageError', 'OpaqueException')

            def once():
                ls = [x for x in calls if x[0] == 'LinkState']
                return z3.BoolVal(len(ls) == 1)

            def right_pid():
                ls = [x for x in calls if x[0] == 'LinkState']
                if len(ls) != 1:
                    return z3.BoolVal(False)
                got = ls[0][2].get('bgpls_pro_id', ls[0][1][0] if ls[0][1] else None)
                if not isinstance(got, (int, SNum)):
                    return z3.BoolVal(False)
                return to_term(got) == pid.t

            def right_octets():
                ls = [x for x in calls if x[0] == 'LinkState']
                if len(ls) != 1:
                    return z3.BoolVal(False)
                got = ls[0][2].get('data')
                g = []
                if not isinstance(got, (bytes, SBytes)) or not same_value(SBytes.of(got), ls_val, g, 'data'):
                    return z3.BoolVal(False)
                return z3.And([t for _, t in g]) if g else z3.BoolVal(True)

            def on_return(got):
                return z3.And(once(), right_pid(), right_octets())
            sp.ret = Any(on_return, 'LINK_STATE decoded exactly once, from its own octets, with the protocol id of the BGP-LS NLRI')
            return sp
        out.append(Unit('Update.parse_attributes[coupled:%s]' % order, qual, build, spec, kind='codec', props=props,
                        verify_kw={'light': True}))
    return out

# ================================================================ construct-only family: tunnel encapsulation / SR-TE policy
def tunnel_encaps_units(props):
    from specs import walker as W
    from pyvc.contracts import Spec, Any
    qual = 'yabgp.message.attribute.tunnelencaps.TunnelEncaps.construct'

    def build(it):
        def I(n, lo, hi):
            return sym_int(it, n, lo, hi)
        sid = {'label': I('sid_label', 0, 2 ** 20 - 1), 'TC': I('sid_tc', 0, 7), 'S': I('sid_s', 0, 1), 'TTL': I('sid_ttl', 0, 255)}
        sid_min = {'label': I('sid_label2', 0, 2 ** 20 - 1)}
        segs_all = [
            {'1': {'label': I('l1', 0, 2 ** 20 - 1)}},
            {'1': dict(sid)},
            {'3': {'node': '10.1.1.1'}},
            {'3': {'node': '10.1.1.1', 'SID': dict(sid)}},
            {'5': {'interface': I('ifidx', 0, 2 ** 32 - 1), 'node': '10.1.1.2'}},
            {'5': {'interface': I('ifidx2', 0, 2 ** 32 - 1), 'node': '10.1.1.2', 'SID': dict(sid_min)}},
            {'6': {'local': '10.1.1.3', 'remote': '10.1.1.4'}},
            {'6': {'local': '10.1.1.3', 'remote': '10.1.1.4', 'SID': dict(sid)}},
        ]
        k = it.p.choose(6, 'policy-shape')
        if k == 0:
            pol = {'0': 'new', '12': I('pref', 0, 2 ** 32 - 1), '13': I('bsid', 0, 2 ** 20 - 1),
                   '128': [{'9': I('w', 0, 2 ** 32 - 1), '1': segs_all}]}
        elif k == 1:
            pol = {'0': 'old', '6': I('pref', 0, 2 ** 32 - 1), '7': I('bsid', 0, 2 ** 20 - 1),
                   '128': [{'9': I('w', 0, 2 ** 32 - 1), '1': segs_all[:3]}, {'1': segs_all[3:]}]}
        elif k == 2:
            pol = {'0': 'new', '128': [{'1': [segs_all[j]]} for j in range(len(segs_all))]}
        elif k == 3:
            pol = {'0': 'new', '12': I('pref', 0, 2 ** 32 - 1), '14': I('enlp', 0, 255), '15': I('prio', 0, 255), '129': 'policy-A',
                   '6': {'asn': I('ep_asn', 0, 2 ** 32 - 1), 'afi': 'ipv4', 'address': '10.9.9.9'}, '128': [{'1': segs_all[6:]}]}
        elif k == 4:
            pol = {'0': 'old', '12': I('pref', 0, 2 ** 32 - 1), '13': I('bsid', 0, 2 ** 20 - 1), '128': []}
        else:
            pol = {'0': 'new', '6': {'asn': I('ep_asn', 0, 2 ** 32 - 1), 'afi': 'ipv6', 'address': '2001:db8::1'},
                   '128': [{'9': I('w', 0, 2 ** 32 - 1), '1': []}]}
        cls = it.prog.func('yabgp.message.attribute.tunnelencaps.TunnelEncaps')
        return [], [cls, pol], {}, {'args': [pol]}

    def spec(c, cls, value):
        sp = Spec()

        def wf(got):
            if not isinstance(got, (bytes, SBytes)):
                return False
            try:
                probs = W.wf_tunnel_encaps(got)
            except W.WalkUndetermined:
                # a length / type octet depends on field values: the walk cannot be decided symbolically.  Look for ONE concrete
                # assignment under which the walk fails: that refutes the clause with a replayable input; otherwise undecided.
                from pyvc import smt
                from pyvc.values import Unsupported
                b = SBytes.of(got)
                m = smt.path_model(c.it.p)
                if m is None:
                    raise Unsupported('structure walk undetermined (no model)')
                n = m.eval(b.len, model_completion=True).as_long()
                conc = bytes(m.eval(b.at(i), model_completion=True).as_long() for i in range(n))
                probs = W.wf_tunnel_encaps(conc)
                if not probs:
                    raise Unsupported('structure walk undetermined for symbolic length octets')
                eqs = [d() == m[d] for d in m.decls() if d.arity() == 0 and z3.is_int(d())]
                return z3.Not(z3.And(eqs)) if eqs else False
            return not probs
        sp.ret = Any(wf, 'a Tunnel Encapsulation attribute every nested length field of which equals the octets that follow')
        return sp
    def request(oc, model):
        from pyvc import replay as RP
        return {'kind': 'call', 'function': qual, 'args': [RP.jval(RP.concretize(model, a)) for a in oc.extra['ctx']['args']], 'cpu_s': 5.0}

    def expected(oc, model, out):
        import binascii
        if out.get('outcome') != 'return':
            return ['real code raised %s %s' % (out.get('exc'), out.get('exc_str', ''))]
        r = out.get('result')
        if not (isinstance(r, dict) and 'hex' in r):
            return ['real code returned %r' % (r,)]
        return W.wf_tunnel_encaps(binascii.a2b_hex(r['hex']))
    return [Unit('TunnelEncaps.construct[structure]', qual, build, spec, kind='codec', props=props, request=request, expected=expected)]


# ================================================================ construct-only family: PMSI tunnel attribute (RFC 6514 section 5)
def pmsi_units(props):
    qual = 'yabgp.message.attribute.pmsitunnel.PMSITunnel.construct'

    def args(it):
        leaf = sym_int(it, 'leaf_info_required', 0, 255)
        label = sym_int(it, 'pmsi_label', 0, 2 ** 20 - 1)
        v6 = it.p.branch(z3.Bool('tunnel_id_is_ipv6'))
        ip = sym_int(it, 'tunnel_ip', 0, 2 ** (128 if v6 else 32) - 1)
        it._pmsi = (leaf, label, ip, v6)
        return [{'mpls_label': [label], 'tunnel_id': (STR.ip6 if v6 else STR.ip4)(ip), 'tunnel_type': 6, 'leaf_info_required': leaf}]

    def expect(it, value, *a):
        leaf, label, ip, v6 = it._pmsi
        body = SP.cat(SP.be(leaf, 1), b'\x06', SP.be(mk_num(to_term(label) * 16), 3), SP.be(ip, 16 if v6 else 4))
        return 'ret', A.attr(22, body)
    return [CodecUnit('PMSITunnel.construct[ingress replication]', qual, args, expect, props=tuple(props))]


# ================================================================ construct-only family: SR-TE policy NLRI (SAFI 73)
def srte_units(props):
    """NLRI = length in BITS (96 or 192), distinguisher (4), color (4), endpoint (4 or 16); and its MP_REACH envelope"""
    us = []

    def nlri_args(it):
        dist, color = sym_int(it, 'distinguisher', 0, 2 ** 32 - 1), sym_int(it, 'color', 0, 2 ** 32 - 1)
        v6 = it.p.branch(z3.Bool('endpoint_is_ipv6'))
        ep = sym_int(it, 'endpoint', 0, 2 ** (128 if v6 else 32) - 1)
        it._srte = (dist, color, ep, v6)
        return [{'distinguisher': dist, 'color': color, 'endpoint': (STR.ip6 if v6 else STR.ip4)(ep)}]

    def nlri_enc(it):
        dist, color, ep, v6 = it._srte
        body = SP.cat(SP.be(dist, 4), SP.be(color, 4), SP.be(ep, 16 if v6 else 4))
        return SP.cat(SP.be(8 * (24 if v6 else 12), 1), body)
    us.append(CodecUnit('IPv4SRTE.construct', 'yabgp.message.attribute.nlri.ipv4_srte.IPv4SRTE.construct', nlri_args,
                        lambda it, d: ('ret', nlri_enc(it)), props=tuple(props)))

    def mp_args(it):
        v = nlri_args(it)[0]
        nh = sym_int(it, 'nexthop', 0, 2 ** 32 - 1)
        it._srte_nh = nh
        return [{'afi_safi': (1, 73), 'nexthop': STR.ip4(nh), 'nlri': v}]

    def mp_expect(it, value):
        body = SP.cat(b'\x00\x01\x49\x04', SP.be(it._srte_nh, 4), b'\x00', nlri_enc(it))
        return 'ret', SP.cat(b'\x90\x0e', SP.be(SP.blen(body), 2), body)
    us.append(CodecUnit('MpReachNLRI.construct[SR-TE policy]', 'yabgp.message.attribute.mpreachnlri.MpReachNLRI.construct', mp_args,
                        mp_expect, props=tuple(props)))
    return us


# ================================================================ construct-only family: IPv6 flowspec prefix component (RFC 8956 3.1)
def flowspec6_units(props):
    """<length, offset, pattern>: the pattern is the bits offset .. length-1 of the address, left-aligned, padded with zero
    bits to an octet boundary: ceil((length - offset) / 8) octets"""
    from .mp_units import sym_digits
    SHAPES = [(64, 0), (0, 0), (128, 0), (48, 16), (127, 8), (1, 0), (10, 3), (64, 1), (128, 127), (33, 32)]

    def args(it):
        k = it.p.concretize(sym_int(it, 'fs6_shape', 0, len(SHAPES) - 1).t, what='(length, offset) shape')
        ln, off = SHAPES[k]
        from .mp_units import canonical_prefix
        a, _ = canonical_prefix(it, 'fs6_addr', 16, plen=ln)
        it._fs6 = (a, ln, off)
        return [{'prefix': STR.concat([STR.ip6(a), '/', str(ln)]), 'offset': off}]

    def expect(it, prefix):
        a, ln, off = it._fs6
        bits = ln - off
        n = (bits + 7) // 8
        k0, r = off // 8, off % 8
        o = list(a.octs) + [z3.IntVal(0)] * 2
        pat = []
        for j in range(n):
            hi, lo = o[k0 + j], o[k0 + j + 1]
            pat.append(z3.simplify(hi if r == 0 else ((hi * (2 ** r)) % 256) + lo / (2 ** (8 - r))))
        from .mp_units import octets_bytes
        return 'ret', SP.cat(SP.be(ln, 1), SP.be(off, 1), octets_bytes(pat, n) if n else b'')
    return [CodecUnit('IPv6FlowSpec.construct_prefix', 'yabgp.message.attribute.nlri.ipv6_flowspec.IPv6FlowSpec.construct_prefix',
                      args, expect, props=tuple(props))]
