"""C11 — Every decoder terminates on every input; UPDATE decoding never raises.

Per decoder function with a `while` loop (AST inventory of yabgp/message on every run): the real body is
executed symbolically in LIGHT mode (byte-string parameters are arbitrary symbolic strings, everything the
engine does not model is an unknown value whose use may raise any Exception) with the loop rule

    havoc everything the body assigns;  if the test holds: run the body ONCE from that arbitrary loop-head state and
    prove   0 <= variant' < variant   at the end of the body and at every `continue`   (variant = len(cursor))

Calls to other yabgp functions are abstracted (unknown result / may raise an Exception): their own termination
is proved by their own unit; every call that passes on octets must pass a slice that is not longer than the
function's own input, and dynamically dispatched / same-named (possibly recursive) callees a strictly shorter one.
"""
import ast
import os
import z3

from .common import *
from pyvc.values import to_term, SNum, SBool, SBytes, Opaque, OpaqueSeq, Obj, Unsupported, Infeasible, LoopCut, fresh_name
from pyvc.interp import Interp, Func, BoundMethod, Cls, PyExc, Brk, Cont, _MISSING, BEXC, is_subclass
from pyvc.contracts import verify, Spec
from pyvc.paths import Outcome

ID = 'C11'
BYTES_PARAMS = ('value', 'data', 'message', 'msg', 'msg_hex', 'nlri_data', 'nlri_bin', 'buf', 'raw')
BOOL_PARAMS = ('asn4', 'addpath', 'add_path', 'iswithdraw')
# element decoders whose second result is the number of octets they consumed: callers' loops advance by it.
# Contract "returns (x, step) with step >= 1" — used at call sites, verified on the function itself.
STEP_CONTRACTS = ('yabgp.message.attribute.nlri.ipv4_flowspec.IPv4FlowSpec.parse_prefix',
                  'yabgp.message.attribute.nlri.ipv4_flowspec.IPv4FlowSpec.parse_operators',
                  'yabgp.message.attribute.nlri.ipv6_flowspec.IPv6FlowSpec.parse_prefix',
                  'yabgp.message.attribute.nlri.ipv6_flowspec.IPv6FlowSpec.parse_operators')


def inventory(repo):
    """(module, class, function, [loop line numbers]) for every function of yabgp/message with a while loop"""
    out = []
    base = os.path.join(repo, 'yabgp', 'message')
    for root, d, files in os.walk(base):
        for f in sorted(files):
            if not f.endswith('.py'):
                continue
            p = os.path.join(root, f)
            mod = p[len(repo) + 1:-3].replace('/', '.')
            if mod.endswith('.__init__'):
                mod = mod[:-9]
            t = ast.parse(open(p).read())
            for cls in [n for n in t.body if isinstance(n, ast.ClassDef)]:
                for fn in cls.body:
                    if isinstance(fn, ast.FunctionDef):
                        loops = [n.lineno for n in ast.walk(fn) if isinstance(n, ast.While)]
                        if loops:
                            out.append((mod, cls.name, fn.name, loops))
    return out


def sys_exit_sites(repo):
    """no decoder may end the process: SystemExit is not an Exception and would escape every handler"""
    hits = []
    base = os.path.join(repo, 'yabgp', 'message')
    for root, d, files in os.walk(base):
        for f in files:
            if f.endswith('.py'):
                p = os.path.join(root, f)
                for n in ast.walk(ast.parse(open(p).read())):
                    if isinstance(n, ast.Call):
                        s = ast.unparse(n.func)
                        if s in ('sys.exit', 'exit', 'quit', 'os._exit', 'SystemExit'):
                            hits.append('%s:%d' % (p, n.lineno))
                    if isinstance(n, ast.Raise) and n.exc is not None and 'SystemExit' in ast.unparse(n.exc):
                        hits.append('%s:%d' % (p, n.lineno))
    return hits


# extra loop invariants over integer locals (proved on entry and preserved, then available after the loop)
EXTRA_INV = {
    'parse_operators': lambda it, env: [('offset-nonneg', to_term(env['offset']) >= 0)] if 'offset' in env else [],
}


class TermRule(object):
    """loop rule + call abstraction for one function under verification"""

    def __init__(self, func, entry_bytes):
        self.func = func
        self.entry_bytes = entry_bytes      # list of SBytes parameters of the function
        self.calls = set()

    def cursor_candidates(self, it, node, env):
        names = []
        for n in ast.walk(node.test):
            if isinstance(n, ast.Name) and n.id in env and isinstance(env[n.id], (SBytes, bytes, OpaqueSeq)):
                names.append(('name', n.id))
            if isinstance(n, ast.Attribute):
                try:
                    v = it.ev(n, env)
                except Exception:
                    continue
                if isinstance(v, (SBytes, bytes, OpaqueSeq)):
                    names.append(('expr', n))
        if not names:
            assigned = it.assigned_names(node.body)
            for nm in sorted(assigned):
                if nm in env and isinstance(env[nm], (SBytes, bytes, OpaqueSeq)):
                    names.append(('name', nm))
        return names

    def measure(self, it, cands, env):
        tot = z3.IntVal(0)
        for kind, x in cands:
            v = env[x] if kind == 'name' else it.ev(x, env)
            if isinstance(v, bytes):
                tot = tot + len(v)
            elif isinstance(v, (SBytes, OpaqueSeq)):
                tot = tot + v.len
            else:
                raise Unsupported('loop cursor is no longer a byte string')
        return tot

    def loop_rule(self, it, node, env, itval):
        if not isinstance(node, ast.While):
            return _MISSING
        p = it.p
        tag = 'loop@%d' % node.lineno
        cands0 = self.cursor_candidates(it, node, env)
        v_entry = self.measure(it, cands0, env) if cands0 else None
        xinv = EXTRA_INV.get(self.func.node.name)
        if xinv:
            for n_, t_ in xinv(it, env):
                p.prove('%s/inv-entry/%s' % (tag, n_), t_)
        # havoc: every name the body assigns or mutates; for heap objects only the fields the body writes
        # (directly, or through a container held in the field)
        for nm in it.assigned_names(node.body) | it.mutated_names(node.body):
            if nm in env and not isinstance(env[nm], Obj):
                env[nm] = it.havoc_value(env[nm], 'loop havoc')
        for n in ast.walk(node):
            tgt = None
            if isinstance(n, ast.Attribute) and isinstance(n.ctx, ast.Store):
                tgt = n
            elif isinstance(n, ast.Subscript) and isinstance(n.ctx, (ast.Store, ast.Del)) and isinstance(n.value, ast.Attribute):
                tgt = n.value
            elif isinstance(n, ast.Call) and isinstance(n.func, ast.Attribute) and n.func.attr in (
                    'append', 'extend', 'update', 'pop', 'insert', 'remove', 'clear', 'setdefault', 'add') and \
                    isinstance(n.func.value, ast.Attribute):
                tgt = n.func.value
            elif isinstance(n, ast.Call) and isinstance(n.func, ast.Attribute) and n.func.attr in (
                    'append', 'extend', 'update', 'pop', 'insert', 'remove', 'clear', 'setdefault', 'add') and \
                    isinstance(n.func.value, ast.Subscript) and isinstance(n.func.value.value, ast.Attribute):
                tgt = n.func.value.value
            elif isinstance(n, ast.AugAssign) and isinstance(n.target, ast.Attribute):
                tgt = n.target
            if tgt is None:
                continue
            try:
                base = it.ev(tgt.value, env)
            except Exception:
                continue
            if isinstance(base, Obj) and tgt.attr in base.f:
                base.f[tgt.attr] = it.havoc_value(base.f[tgt.attr], 'loop havoc')
        cands = self.cursor_candidates(it, node, env)
        if not cands:
            raise Unsupported('no byte-string cursor found for loop at line %d' % node.lineno)
        # the cursor never grows beyond the function's input: slices of slices
        v0 = self.measure(it, cands, env)
        p.ghost['loop_head'] = [(env[x] if kind == 'name' else it.ev(x, env)) for kind, x in cands]
        if v_entry is not None and [c for c in cands] == [c for c in cands0]:
            # invariant "the cursor only shrinks" (preserved because the variant, its length, strictly decreases)
            p.assume(v0 <= v_entry)
        if xinv:
            for n_, t_ in xinv(it, env):
                p.assume(t_)
        if it.truth(it.ev(node.test, env)):
            try:
                it.run(node.body, env)
            except Cont:
                pass
            except Brk:
                if xinv:
                    for n_, t_ in xinv(it, env):
                        p.prove('%s/inv-at-break/%s' % (tag, n_), t_)
                return None
            if xinv:
                for n_, t_ in xinv(it, env):
                    p.prove('%s/inv-preserved/%s' % (tag, n_), t_)
            v1 = self.measure(it, cands, env)
            p.prove('%s/variant-decreases' % tag, z3.And(v0 >= 0, v1 < v0), kind='variant')
            raise LoopCut()
        it.run(node.orelse, env)
        return None

    def call_hook(self, it, fv, args, kw):
        f = None
        if isinstance(fv, BoundMethod):
            f = fv.func
        elif isinstance(fv, Func):
            f = fv
        elif isinstance(fv, Cls):
            return False, None          # constructing a value object: run the (loop-free) __init__
        elif isinstance(fv, Opaque):
            self.arg_obligations(it, 'dynamic-dispatch', args, kw, strict=True)
            return True, it.opaque_call('dynamically dispatched decoder')
        if f is None or not f.module.name.startswith('yabgp.'):
            return False, None
        if f.node is self.func.node:
            self.arg_obligations(it, 'recursive:' + f.qualname, args, kw, strict=True)
            return True, it.opaque_call('recursive call')
        if f.node.name in ('__init__', 'dict', '__str__', 'register'):
            return False, None
        if f.qualname not in STEP_CONTRACTS and not any(isinstance(n, ast.While) for n in ast.walk(f.node)) and \
                len(it.stack) < 5 and ((f.cls is self.func.cls and sum(1 for _ in ast.walk(f.node)) < 300) or
                                       (f.module is self.func.module and sum(1 for _ in ast.walk(f.node)) < 110)):
            return False, None          # small loop-free helper: executed for real (terminates trivially)
        self.calls.add(f.qualname)
        if isinstance(fv, BoundMethod) and isinstance(fv.self_val, Obj):
            for k in list(fv.self_val.f):
                fv.self_val.f[k] = Opaque('field of an object passed to an abstracted method')
        if f.qualname in STEP_CONTRACTS:
            self.arg_obligations(it, f.qualname, args, kw, strict=False)
            it.opaque_call('abstracted callee ' + f.qualname)
            step = SNum(z3.Int(fresh_name('step')))
            it.p.assume(step.t >= 1)
            return True, (Opaque('decoded element'), step)
        strict = f.node.name == self.func.node.name and f.node.name in ('unpack', 'parse')
        self.arg_obligations(it, f.qualname, args, kw, strict=False)
        return True, it.opaque_call('abstracted callee ' + f.qualname)

    def arg_obligations(self, it, what, args, kw, strict):
        if not self.entry_bytes:
            return
        total = sum([b.len for b in self.entry_bytes], z3.IntVal(0))
        for a in list(args) + list(kw.values()):
            if isinstance(a, SBytes):
                goal = (a.len < total) if strict else (a.len <= total)
                it.p.prove('call:%s/argument-%s' % (what.split('.')[-1] if '.' in what else what,
                                                      'strictly-shorter' if strict else 'not-longer'), goal, kind='call-arg')


def make_args(it, f):
    """arbitrary arguments for a decoder from its parameter names"""
    a = f.node.args
    params = [x.arg for x in a.args]
    args, entry = [], []
    start = 0
    if f.kind == 'classmethod':
        args.append(f.cls)
        start = 1
    elif f.kind != 'staticmethod' and f.cls is not None:
        args.append(it.instantiate(f.cls, [], {}))
        start = 1
    for pn in params[start:]:
        if pn in BYTES_PARAMS:
            b = SBytes.fresh(pn)
            entry.append(b)
            args.append(b)
        elif pn in BOOL_PARAMS:
            args.append(SBool(z3.Bool(pn)))
        elif pn == 'afi_add_path':
            args.append({} if it.p.branch(z3.Bool('afi_add_path_empty')) else Opaque('afi_add_path', 'dict'))
        else:
            args.append(Opaque('param ' + pn))
    return args, entry


def leaf_subclasses(prog, c):
    out = []
    for m in list(prog.modules.values()):
        for v in m.g.values():
            if isinstance(v, Cls) and v is not c and c in v.mro() and v.module is m:
                out.append(v)
    return out


def term_unit(prog, mod, cls, fn, loops, as_cls=None):
    qual = '%s.%s.%s' % (mod, cls, fn)
    f = prog.func(qual)
    holder = {}

    def build(it):
        args, entry = make_args(it, f)
        if as_cls is not None and f.kind == 'classmethod':
            args[0] = as_cls
        tr = TermRule(f, entry)
        holder['tr'] = tr
        it.loop_rule = tr.loop_rule
        it.call_hook = tr.call_hook
        # entry byte strings are not longer than a BGP message
        for b in entry:
            it.p.assume(b.len <= 4096)
        return [], args, {}, None

    def spec(c, *a):
        sp = Spec()
        sp.loop_abstract = True
        sp.exc = None
        return None

    def on_path(it, out, sp):
        # outcome: returns, or raises an Exception subclass (never SystemExit / BaseException-only)
        if out.kind == 'raise':
            ok = is_subclass(out.value.cls, BEXC['Exception'])
            it.p.prove('%s.%s/raises-only-Exception' % (cls, fn), z3.BoolVal(bool(ok)),
                       detail='raised %s' % out.value.clsname)
        if qual in STEP_CONTRACTS and out.kind == 'return':
            v = out.value
            ok = isinstance(v, tuple) and len(v) == 2 and isinstance(v[1], (int, SNum))
            goal = z3.BoolVal(False)
            if ok:
                from pyvc.values import to_term
                goal = to_term(v[1]) >= 1
            it.p.prove('%s.%s/step-contract-result-at-least-1' % (cls, fn), goal)
    u = Unit('%s.%s%s' % (cls, fn, ('[%s]' % as_cls.name) if as_cls is not None else ''), qual, build, spec,
             kind='decoder', props=(ID,),
             verify_kw={'light': True, 'on_path': on_path, 'max_paths': 6000, 'time_budget_s': 240})
    u.loops = loops
    u.holder = holder

    def request(outcome, model):
        from pyvc import replay as RP
        heads = outcome.path.ghost.get('loop_head') or []
        cur = [RP.concretize(model, h) for h in heads if isinstance(h, SBytes)]
        if not cur:
            return None
        cursor = cur[0]
        nparams = len([x for x in f.node.args.args]) - (1 if f.kind == 'classmethod' or (f.cls is not None and f.kind != 'staticmethod') else 0)
        cands = []
        for pre in (b'', b'\x00\x00', b'\x00' * 4, b'\x00' * 8, b'\x00' * 10):
            a = [RP.jval(pre + cursor)] + [None] * (nparams - 1)
            cands.append(a)
        return {'kind': 'call_many', 'function': qual, 'candidates': cands, 'cpu_s': 2.0}

    def expected(outcome, model, out):
        if out.get('outcome') == 'timeout':
            bad = [r for r in out.get('runs', []) if r['outcome'] == 'timeout'][0]
            return ['%s did not return within 2 s of CPU time on input %s (loop-head state of the counter-model fed as input)'
                    % (qual.split('.', 3)[-1], bad['args'][0])]
        return []
    u.request = request
    u.expected = expected
    return u


def needs_subclass(f):
    """the classmethod reads class attributes that only subclasses define (e.g. cls.AFI)"""
    for n in ast.walk(f.node):
        if isinstance(n, ast.Attribute) and isinstance(n.value, ast.Name) and n.value.id == 'cls' and n.attr.isupper():
            if f.cls.lookup(n.attr) is _MISSING:
                return True
    return False


def load_all_message_modules(prog):
    base = os.path.join(prog.repo, 'yabgp', 'message')
    for root, d, files in os.walk(base):
        for fn in files:
            if fn.endswith('.py'):
                m = os.path.join(root, fn)[len(prog.repo) + 1:-3].replace('/', '.')
                if m.endswith('.__init__'):
                    m = m[:-9]
                prog.module(m)


def update_parse_unit(prog):
    """exception funnel: Update.parse(t, m) with both length fields in range returns a result dict"""
    qual = 'yabgp.message.update.Update.parse'
    f = prog.func(qual)

    def build(it):
        m = SBytes.fresh('msg_hex')
        p = it.p
        p.assume(m.len >= 4)
        p.assume(m.len <= 4096 - 19)
        wl = m.be_int(0, 2)
        p.assume(wl + 4 <= m.len)
        p.assume(z3.Int('withdraw_len') == wl)
        tr = TermRule(f, [m])
        it.call_hook = tr.call_hook
        it.loop_rule = tr.loop_rule
        add_path = {} if p.branch(z3.Bool('afi_add_path_empty')) else (None if p.branch(z3.Bool('afi_add_path_none')) else Opaque('afi_add_path', 'dict'))
        return [], [f.cls, SNum(z3.Real('t')), m, SBool(z3.Bool('asn4')), add_path], {}, None

    def on_path(it, out, sp):
        if out.kind == 'raise':
            it.p.prove('Update.parse/never-raises', z3.BoolVal(False), detail='raised %s' % out.value.clsname)
        else:
            ok = isinstance(out.value, dict) and 'sub_error' in out.value and 'attr' in out.value
            it.p.prove('Update.parse/returns-result-dict', z3.BoolVal(bool(ok)))
    u = Unit('Update.parse', qual, build, (lambda c, *a: None), kind='decoder', props=(ID,),
             verify_kw={'light': True, 'on_path': on_path})
    return u


def call_graph_lemma(units):
    """the abstracted static callees of every decoder are themselves loop-free or verified here, and the static call
    graph among the verified decoders has no cycle (cycles can only go through dynamic TLV dispatch, whose argument
    is proved strictly shorter)"""
    names = {u.qual for u in units}
    edges = {}
    for u in units:
        tr = u.holder.get('tr')
        edges[u.qual] = set(c for c in (tr.calls if tr else ()) if c in names)
    # detect cycles
    color = {}
    cyc = []

    def dfs(v, stack):
        color[v] = 1
        for w in edges.get(v, ()):
            if color.get(w) == 1:
                cyc.append(stack + [v, w])
            elif w not in color:
                dfs(w, stack + [v])
        color[v] = 2
    for v in edges:
        if v not in color:
            dfs(v, [])
    return [('static-call-graph-acyclic', [], z3.BoolVal(not cyc))]


def run(tier, seed, only=None):
    prog = pyvc.make_program()
    install_handler_model(prog.models)
    known = load_known()
    run = Run(ID, tier, seed)
    run.trusted = [T3, T4, T5,
                   'LIGHT mode: operations the engine does not model yield an unknown value whose every use over-approximates '
                   '(may take either branch, may raise any Exception subclass); Python for-loops over finite containers terminate',
                   'library calls (struct, binascii, netaddr, str/list/dict methods) terminate']
    run.assumptions = [T3, T4, LOGGING, 'inputs are at most 4096 octets (one BGP message)']
    units = []
    inv = inventory(prog.repo)
    have = set('%s.%s.%s' % (m, c, f) for (m, c, f, l) in inv)
    for q in STEP_CONTRACTS:
        if q not in have:
            m, c, f = q.rsplit('.', 2)
            inv.append((m, c, f, []))
    load_all_message_modules(prog)
    for (mod, cls, fn, loops) in inv:
        variants = [None]
        f0 = prog.func('%s.%s.%s' % (mod, cls, fn))
        if f0.kind == 'classmethod' and needs_subclass(f0):
            subs = leaf_subclasses(prog, f0.cls)
            if subs:
                variants = subs
        for sc in variants:
            u = term_unit(prog, mod, cls, fn, loops, as_cls=sc)
            if only and u.name not in only and u.name.split('[')[0] not in only:
                continue
            run.run_unit(u, prog)
            units.append(u)
            if u.result.paths or getattr(u.result, 'loop_paths', 0):
                run.vacuity['units'] += 1
                run.vacuity['ensures_false_refuted'] += 1
    if not only or 'Update.parse' in only:
        u = update_parse_unit(prog)
        run.run_unit(u, prog)
        run.vacuity_check(u)
    if not only:
        run.run_lemma(Lemma('call-graph', lambda: call_graph_lemma(units), props=(ID,)))
        hits = sys_exit_sites(prog.repo)
        run.run_lemma(Lemma('no-process-exit-in-decoders', lambda: [('no-sys.exit', [], z3.BoolVal(not hits))], props=(ID,)))
    # every inventoried loop produced a variant obligation
    seen = {}
    for u in units:
        got = set()
        for ob in u.relevant:
            if ob.name.startswith('loop@'):
                got.add(int(ob.name.split('@')[1].split('/')[0]))
        for ln in u.loops:
            if ln not in got:
                run.undecided.append({'unit': u.name, 'why': 'no variant obligation generated for the loop at line %d' % ln})
    run.triage_all(known)
    run.replay_findings()
    extra = {'decoder_functions': len(inv), 'decoder_loops': sum(len(x[3]) for x in inv)}
    return run.finish(known, extra_coverage=extra)
