"""C12 — At most one TCP connection or connection attempt to the peer at any time"""
from .session_prop import *

ID = 'C12'


def run(tier, seed, only=None):
    from contracts import session as CS
    lemmas = LEMMAS(ID)
    return run_session(ID, tier, seed, only=only, select=None, lemmas=lemmas)


def LEMMAS(pid):
    from . import session_lemmas as SL
    return SL.for_prop(pid)
