"""C20 — On-disk message log stays well-formed and gap-free across rotation / restart / crash.

File-system model (T3): a directory is an ordered list of files; a file is a list of LINES, each either a complete
record line (its `seq` a symbolic integer) or — only as the last line of the newest file after a crash — a torn
fragment (any proper prefix of "LINE\\n", possibly empty).  json.dump(record, f) followed by f.write('\\n') appends one
complete line; json.loads of a complete line returns the record, of a torn fragment raises ValueError; a new
"<time>.msg" name sorts after every existing name.
"""
import z3
from .common import *
from pyvc.values import SNum, SBool, SBytes, Obj, Opaque, to_term, mk_num, fresh_name
from pyvc.interp import Builtin, PyExc, raise_builtin, _MISSING, BEXC
from pyvc.contracts import Spec, Sim, ANY, Any, Contract
from pyvc import strings as STR
from pyvc.strings import SStr, Atom
from contracts.timer import wrap, SimExc

ID = 'C20'
DH = 'yabgp.handler.default_handler.DefaultHandler.'
PEER = 'FE80::A'


class FS(object):
    """per-path file-system harness (installed as prog.models.fs)"""

    def __init__(self, it, files, sizes=None):
        self.it = it
        self.files = files            # [(name, [line objs])] in name order
        self.dirs = {'/data/', '/data/10.0.0.2', '/data/10.0.0.2/msg/'}
        self.sizes = sizes or {}
        self.opened = []
        self.new_names = 0

    # -- os.path / os
    def os_path_join(self, it, a, kw):
        parts = [x for x in a]
        out = parts[0]
        for p in parts[1:]:
            if isinstance(p, str) and p.startswith('/'):
                out = p
            elif isinstance(out, str) and out.endswith('/'):
                out = STR.concat([out, p])
            else:
                out = STR.concat([out, '/', p])
        return out

    def os_path_exists(self, it, a, kw):
        return a[0] in self.dirs if isinstance(a[0], str) else True

    def os_makedirs(self, it, a, kw):
        it.p.effect('Mkdir', a[0])
        if isinstance(a[0], str):
            self.dirs.add(a[0])

    def os_listdir(self, it, a, kw):
        return [n for n, _ in self.files]

    def os_path_getsize(self, it, a, kw):
        n = a[0]
        if n in self.sizes:
            return self.sizes[n]
        v = SNum(z3.Int(fresh_name('fsize')))
        it.p.assume(v.t >= 0)
        return v

    def os_fsync(self, it, a, kw):
        it.p.effect('Fsync', a[0])

    # -- json
    def json_dump(self, it, a, kw):
        rec, f = a[0], a[1]
        if self.unserialisable(rec):
            # T3: json.dump raises TypeError for a value JSON cannot represent — after having written a prefix
            f.f['written'] = f.f['written'] + (('torn-json', rec),)
            raise_builtin('TypeError', 'Object is not JSON serializable')
        f.f['written'] = f.f['written'] + (('json', rec),)

    def json_dumps(self, it, a, kw):
        rec = a[0]
        if self.unserialisable(rec):
            raise_builtin('TypeError', 'Object is not JSON serializable')
        return SStr([Atom('json', dict(rec))])

    def unserialisable(self, v):
        if isinstance(v, (bytes, SBytes)):
            return True
        if isinstance(v, dict):
            return any(self.unserialisable(x) for x in v.values())
        if isinstance(v, (list, tuple)):
            return any(self.unserialisable(x) for x in v)
        return False

    def json_loads(self, it, a, kw):
        line = a[0]
        if isinstance(line, Obj) and line.clsname == 'LogLine':
            if line.f['kind'] in ('complete', 'unterminated'):
                return {'t': line.f.get('t', 0), 'seq': line.f['seq'], 'type': line.f.get('type', 2), 'msg': None}
            raise PyExc(Obj(BEXC['JSONDecodeError'], {'args': ('torn line',)}))
        raise_builtin('ValueError', 'not a log line')

    # -- open
    def open(self, it, a, kw):
        name = a[0]
        mode = a[1] if len(a) > 1 else kw.get('mode', 'r')
        base = None
        for n, lines in self.files:
            if self.same_name(name, n):
                base = (n, lines)
        if base is None:
            if mode.startswith('r'):
                raise PyExc(Obj(BEXC['OSError'], {'args': ('no such file',)}))
            self.new_names += 1
            base = (name, [])
            self.files.append(base)
        f = Obj('FsFile', {'name': name, 'mode': mode, 'written': (), 'closed': False, 'lines': base[1], 'flushed': 0},
                tag='file:%s' % (name if isinstance(name, str) else 'new'))
        self.opened.append(f)
        it.p.effect('Open', name, mode)
        return f

    def same_name(self, a, b):
        if isinstance(a, str) and isinstance(b, str):
            return a == b or a.endswith('/' + b) or a.endswith(b)
        if isinstance(a, SStr) and isinstance(b, str):
            return isinstance(a.parts[-1], str) and a.parts[-1].endswith(b)
        return a is b


def install_fs_objects(M):
    def file_attr(it, f, attr):
        if attr == 'write':
            def w(it, a, kw):
                parts = a[0].parts if isinstance(a[0], SStr) else [a[0]]
                for q in parts:
                    f.f['written'] = f.f['written'] + ((('json', q.t) if isinstance(q, Atom) and q.kind == 'json' else ('text', q)),)
            return Builtin('file.write', w)
        if attr == 'flush':
            return Builtin('file.flush', lambda it, a, kw: it.p.effect('Flush', f))
        if attr == 'close':
            def c(it, a, kw):
                f.f['closed'] = True
                it.p.effect('Close', f)
            return Builtin('file.close', c)
        if attr == 'fileno':
            return Builtin('file.fileno', lambda it, a, kw: f)
        if attr == 'name':
            return f.f['name']
        return _MISSING
    M.obj_attr_handlers['FsFile'] = file_attr

    def line_attr(it, ln, attr):
        if attr == 'startswith':
            return Builtin('line.startswith', lambda it, a, kw: a[0] == '{')
        if attr == 'endswith':
            return Builtin('line.endswith', lambda it, a, kw: a[0] == '\n' and ln.f['kind'] == 'complete')
        return _MISSING
    M.obj_attr_handlers['LogLine'] = line_attr
    orig_iter = M.iterate

    def iterate(it, v):
        if isinstance(v, Obj) and v.clsname == 'FsFile':
            return list(v.f['lines'])
        return orig_iter(it, v)
    M.iterate = iterate
    orig_enter = M.with_enter

    def with_enter(it, cm):
        if isinstance(cm, Obj) and cm.clsname == 'FsFile':
            return cm
        return orig_enter(it, cm)
    M.with_enter = with_enter
    orig_exit = M.with_exit

    def with_exit(it, cm):
        if isinstance(cm, Obj) and cm.clsname == 'FsFile':
            cm.f['closed'] = True
            return None
        return orig_exit(it, cm)
    M.with_exit = with_exit


def complete(seq):
    return Obj('LogLine', {'kind': 'complete', 'seq': seq})


def torn():
    """a proper prefix of a record line: no newline, json.loads raises"""
    return Obj('LogLine', {'kind': 'torn', 'seq': None})


def unterminated(seq):
    """a complete JSON record whose newline did not reach the disk"""
    return Obj('LogLine', {'kind': 'unterminated', 'seq': seq})


# ---------------------------------------------------------------- the specification of recovery (from the property)
def spec_last_seq(files):
    """largest sequence number of a complete record on disk (records are numbered consecutively, so: the last one)"""
    last = 0
    for _, lines in files:
        for ln in lines:
            if ln.f['kind'] in ('complete', 'unterminated'):
                last = ln.f['seq']
    return last


def spec_append_file(files):
    """the file new records may be appended to: the newest one, unless its tail is unterminated (then a new file)"""
    if not files:
        return None
    name, lines = files[-1]
    if lines and lines[-1].f['kind'] != 'complete':
        return None
    return name


def dir_states(it):
    s1, s2, s3 = SNum(z3.Int('s1')), SNum(z3.Int('s2')), SNum(z3.Int('s3'))
    it.p.assume(z3.And(s1.t >= 1, s2.t == s1.t + 1, s3.t == s2.t + 1))
    names = ['empty-dir', 'one-file-complete', 'two-files-complete', 'newest-file-empty', 'torn-last-line', 'one-empty-file',
             'newest-file-only-a-torn-line', 'unterminated-complete-last-line', 'old-torn-tail-then-empty-newest',
             'two-empty-newest-files']
    scen = it.p.choose(len(names), 'dir-state')
    files = {
        0: [],
        1: [('1000.0.msg', [complete(s1), complete(s2)])],
        2: [('1000.0.msg', [complete(s1)]), ('2000.0.msg', [complete(s2)])],
        3: [('1000.0.msg', [complete(s1), complete(s2)]), ('2000.0.msg', [])],
        4: [('1000.0.msg', [complete(s1), complete(s2), torn()])],
        5: [('1000.0.msg', [])],
        6: [('1000.0.msg', [complete(s1), complete(s2)]), ('2000.0.msg', [torn()])],
        7: [('1000.0.msg', [complete(s1), complete(s2), unterminated(s3)])],
        8: [('1000.0.msg', [complete(s1), complete(s2), torn()]), ('2000.0.msg', [])],
        9: [('1000.0.msg', [complete(s1), complete(s2)]), ('2000.0.msg', []), ('3000.0.msg', [])],
    }[scen]
    it.p.assume(z3.Int('dir_state') == scen)
    return files, names[scen]


PEER_KEY = 'fe80::a'


def handler_obj(it, seq, fileobj):
    cls = it.prog.func('yabgp.handler.default_handler.DefaultHandler')
    h = Obj(cls, {'inter_mq': Obj('Queue', {'n': 0}),
                  'peer_files': {PEER_KEY: ('/data/fe80::a/msg/', fileobj)} if fileobj else {},
                  'msg_sequence': {PEER_KEY: seq} if fileobj else {}}, tag='handler')
    return h


def setup_conf(it, write_keepalive=False, max_size=500):
    conf = it.prog.models.conf
    conf.f.clear()
    conf.f['message'] = Obj('CONFGROUP', {'write_disk': True, 'write_dir': '/data/', 'write_msg_max_size': max_size,
                                          'write_keepalive': write_keepalive})
    conf.f['bgp'] = Obj('CONFGROUP', {'running_config': {'remote_addr': PEER}})


CUR_FILE = '/data/fe80::a/msg/1000.0.msg'


def open_current(it, M, lines=None):
    fs = FS(it, [('1000.0.msg', lines if lines is not None else [])])
    fs.dirs = {'/data/', '/data/fe80::a', '/data/fe80::a/msg/'}
    M.fs = fs
    f = fs.open(it, [CUR_FILE, 'a'], {})
    del it.p.effects[:]
    return fs, f


def units(prog):
    us = []
    M = prog.models

    # ---------------- write_msg: exactly one complete line {t, seq, type, msg}, seq = counter, counter + 1, flush + fsync
    def wm_build(it):
        setup_conf(it)
        fs, f = open_current(it, M)
        seq = SNum(z3.Int('seq'))
        it.p.assume(seq.t >= 1)
        h = handler_obj(it, seq, f)
        bad = it.p.branch(z3.Bool('msg_has_bytes'))
        msg = {'msg': ({'attr': {14: {'nexthop': b'\x00\x01'}}} if bad else {'attr': {1: 0}, 'nlri': ['1.1.1.0/24']})}
        t = SNum(z3.Real('timestamp'))
        ty = SNum(z3.Int('msg_type'))
        it._c20 = (h, f, seq, t, ty, msg, bad)
        # the peer is spelled as configured (upper-case hex digits are legal), the tables are keyed by lower case
        return [h, f], [h, PEER, t, ty, msg], {}, None

    def wm_spec(c, self, peer, timestamp, msg_type, msg):
        h, f, seq, t, ty, m, bad = c.it._c20
        s = Sim(c)
        rec = {'t': t, 'seq': seq, 'type': ty}
        rec.update(m)
        if bad:
            # a value JSON cannot carry: the record is still ONE complete line with the documented keys; its msg is a rendering
            rec['msg'] = Any(lambda got: isinstance(got, (str, SStr, Opaque)), 'a string rendering of msg')
        s.set(f, 'written', (('json', rec), ('text', '\n')))
        s.set(h.f['msg_sequence'], PEER_KEY, s.add(seq, 1))
        s.eff('Flush', f)
        s.eff('Fsync', f)
        return s.spec()
    us.append(Unit('DefaultHandler.write_msg', DH + 'write_msg', wm_build, wm_spec, kind='log', props=(ID,), request=wm_request,
                   expected=wm_expected))

    # ---------------- every callback reports exactly one record through write_msg (keepalive: iff configured)
    def cb_unit(name, nargs, mtype, conf_ka=None):
        def build(it):
            setup_conf(it, write_keepalive=bool(conf_ka))
            fs, f = open_current(it, M)
            seq = SNum(z3.Int('seq'))
            it.p.assume(seq.t >= 1)
            h = handler_obj(it, seq, f)
            peer = Obj('PeerProto', {'factory': Obj('Factory_', {'peer_addr': PEER}), 'msg_recv_stat': {'Keepalives': SNum(z3.Int('kas'))}})
            args = [h] + ([PEER] if name == 'on_connection_failed' else [peer])
            for i in range(nargs):
                args.append(Opaque('cb arg %d' % i) if name not in ('update_received', 'on_update_error', 'keepalive_received')
                            else (SNum(z3.Real('ts')) if i == 0 else {'attr': {}}))
            it._c20 = (h, f, seq)
            return [h, f], args, {}, None

        def spec(c, *a):
            h, f, seq = c.it._c20
            s = Sim(c)
            expect_write = (conf_ka is None) or conf_ka
            if expect_write:
                if mtype is None:
                    ty = Any(lambda got, want=a[-1]: got is want, 'the msg_type argument')
                else:
                    ty = Any(lambda got, mt=mtype: got == mt, 'type %d' % mtype)
                rec = {'t': ANY, 'seq': seq, 'type': ty, 'msg': ANY}
                s.set(f, 'written', (('json', rec), ('text', '\n')))
                s.set(h.f['msg_sequence'], PEER_KEY, s.add(seq, 1))
            if name == 'update_received':
                # rotation check after the record (its own unit): the threshold is not reached here or a new file is opened
                s.dont_care(h.f['peer_files'], PEER_KEY)
                s.dont_care(f, 'closed')
            sp = s.spec()
            sp.effect_filter = lambda eff: []
            return sp
        label = name if conf_ka is None else '%s[write_keepalive=%s]' % (name, conf_ka)
        return Unit('DefaultHandler.' + label, DH + name, build, spec, kind='log', props=(ID,))
    for name, nargs, mt in (('on_update_error', 2, 6), ('update_received', 2, 2), ('send_open', 2, 1), ('open_received', 2, 1),
                            ('route_refresh_received', 2, None), ('notification_received', 1, 3), ('on_connection_lost', 0, 0),
                            ('on_connection_failed', 1, 0)):
        us.append(cb_unit(name, nargs, mt))
    us.append(cb_unit('keepalive_received', 1, 4, conf_ka=True))
    us.append(cb_unit('keepalive_received', 1, 4, conf_ka=False))

    # ---------------- check_file_size: rotation keeps the counter; the new file is empty, newest, and is the one written next
    def cf_build(it):
        setup_conf(it)
        fs, f = open_current(it, M, [complete(SNum(z3.Int('s1')))])
        size = SNum(z3.Int('cur_size'))
        it.p.assume(size.t >= 0)
        fs.sizes[f.f['name']] = size
        seq = SNum(z3.Int('seq'))
        h = handler_obj(it, seq, f)
        it._c20 = (h, f, seq, size, fs)
        return [h, f], [h, PEER], {}, None

    def cf_spec(c, self, peer):
        h, f, seq, size, fs = c.it._c20
        s = Sim(c)
        if s.branch(size.t >= 500):
            s.set(f, 'closed', True)

            def fresh_newest(got):
                if not (isinstance(got, tuple) and len(got) == 2 and got[0] == '/data/fe80::a/msg/'):
                    return False
                nf = got[1]
                return (isinstance(nf, Obj) and nf.clsname == 'FsFile' and nf is not f and nf.f['written'] == () and
                        nf.f['lines'] == [] and not nf.f['closed'] and nf.f['mode'] == 'a' and
                        c.it.prog.models.fs.files[-1][1] is nf.f['lines'])
            s.set(h.f['peer_files'], PEER_KEY, Any(fresh_newest, '(msg_path, a new empty file that sorts last, open for append)'))
            s.ret = True
        else:
            s.ret = False
        sp = s.spec()
        sp.effect_filter = lambda eff: []
        return sp
    us.append(Unit('DefaultHandler.check_file_size', DH + 'check_file_size', cf_build, cf_spec, kind='log', props=(ID,)))

    # ---------------- restart: get_last_seq_and_file over the directory states a crash can leave
    def gl_build(it):
        setup_conf(it)
        files, label = dir_states(it)
        M.fs = FS(it, files)
        it._c20 = (files, label)
        return [], ['/data/fe80::a/msg/'], {}, None

    def gl_spec(c, msg_path):
        files, label = c.it._c20
        sp = Spec()
        sp.ret = (spec_last_seq(files), spec_append_file(files))      # and: returns (a restart never refuses to start)
        sp.effect_filter = lambda eff: [e for e in eff if e[0] == 'Exit']
        return sp
    us.append(Unit('DefaultHandler.get_last_seq_and_file', DH + 'get_last_seq_and_file', gl_build, gl_spec, kind='log', props=(ID,),
                   request=gl_request, expected=gl_expected))

    # ---------------- restart: init_msg_file continues the numbering and appends only to a file with a clean tail
    def im_build(it):
        setup_conf(it)
        files, label = dir_states(it)
        fs = FS(it, files)
        fs.dirs = {'/data/', '/data/fe80::a', '/data/fe80::a/msg/'}
        M.fs = fs
        h = handler_obj(it, None, None)
        it._c20 = (h, files, label, fs, [list(l) for _, l in files])
        return [h], [h, PEER_KEY], {}, None

    def im_spec(c, self, peer_addr):
        h, files, label, fs, lines0 = c.it._c20
        s = Sim(c)
        last = spec_last_seq(files)
        target = spec_append_file(files)
        s.set(h.f['msg_sequence'], PEER_KEY, s.add(last, 1))

        def right_file(got):
            if not (isinstance(got, tuple) and len(got) == 2 and got[0] == '/data/fe80::a/msg/'):
                return False
            nf = got[1]
            if not (isinstance(nf, Obj) and nf.clsname == 'FsFile' and nf.f['mode'] == 'a' and not nf.f['closed'] and nf.f['written'] == ()):
                return False
            cur = c.it.prog.models.fs.files
            if cur[-1][1] is not nf.f['lines']:
                return False                      # not the newest file: later records would sort before earlier ones
            if target is None:
                return nf.f['lines'] == [] and len(cur) == len(lines0) + 1
            return len(cur) == len(lines0) and cur[-1][0] == target
        s.set(h.f['peer_files'], PEER_KEY, Any(right_file, '(msg_path, newest file with a clean tail — else a new one — open for append)'))
        sp = s.spec()
        sp.effect_filter = lambda eff: [e for e in eff if e[0] == 'Exit']
        return sp
    us.append(Unit('DefaultHandler.init_msg_file', DH + 'init_msg_file', im_build, im_spec, kind='log', props=(ID,)))
    return us


# ---------------------------------------------------------------- native replay (real files in a temporary directory)
def line_text(n):
    return '{"t": 1.0, "seq": %d, "type": 2, "msg": null}\n' % n


def scenario_files(model):
    from pyvc.replay import concretize
    scen = concretize(model, SNum(z3.Int('dir_state')))
    s1 = concretize(model, SNum(z3.Int('s1')))
    s1 = s1 if isinstance(s1, int) and s1 >= 1 else 1
    s2, s3 = s1 + 1, s1 + 2
    T = '{"t": 1.0, "se'
    return scen, s1, {
        0: [],
        1: [['1000.0.msg', line_text(s1) + line_text(s2)]],
        2: [['1000.0.msg', line_text(s1)], ['2000.0.msg', line_text(s2)]],
        3: [['1000.0.msg', line_text(s1) + line_text(s2)], ['2000.0.msg', '']],
        4: [['1000.0.msg', line_text(s1) + line_text(s2) + T]],
        5: [['1000.0.msg', '']],
        6: [['1000.0.msg', line_text(s1) + line_text(s2)], ['2000.0.msg', T]],
        7: [['1000.0.msg', line_text(s1) + line_text(s2) + line_text(s3)[:-1]]],
        8: [['1000.0.msg', line_text(s1) + line_text(s2) + T], ['2000.0.msg', '']],
        9: [['1000.0.msg', line_text(s1) + line_text(s2)], ['2000.0.msg', ''], ['3000.0.msg', '']],
    }[scen]


def gl_request(oc, model):
    scen, s1, files = scenario_files(model)
    return {'kind': 'logfs', 'peer': PEER, 'files': files, 'start': False, 'ops': [['get_last']]}


def gl_expected(oc, model, out):
    scen, s1, files = scenario_files(model)
    diffs = []
    rec = out['log'][-1]
    last = 0
    for _, text in files:
        for ln in text.splitlines():
            try:
                import json
                last = json.loads(ln)['seq']
            except ValueError:
                pass
    newest_clean = (files[-1][0] if files and (files[-1][1] == '' or files[-1][1].endswith('\n')) else None)
    if rec['outcome'] != 'return':
        diffs.append('get_last_seq_and_file raised %s: the agent refuses to start on its own log' % rec.get('exc'))
    else:
        got = rec['result']['tuple']
        if got[0] != last:
            diffs.append('recovered sequence number %r, the last complete record on disk is %r' % (got[0], last))
        if got[1] != newest_clean:
            diffs.append('file to append to: %r, expected %r' % (got[1], newest_clean))
    return diffs


def wm_request(oc, model):
    bad = bool(model.eval(z3.Bool('msg_has_bytes'), model_completion=True))
    msg = {'dict': [['msg', {'dict': [['attr', {'hex': '00ff'}]]} if bad else None]]}
    return {'kind': 'logfs', 'peer': PEER, 'files': [], 'ops': [['write', 1.0, 2, msg], ['write', 2.0, 2, {'dict': [['msg', None]]}]]}


def wm_expected(oc, model, out):
    return audit(out)


def audit(out, crashes=0):
    """the property's final audit of a directory: every line a complete JSON object with keys t, seq, type, msg; numbers
    consecutive from 1 in file-name order; at most one torn fragment per crash (unterminated file tail)"""
    import json
    diffs = []
    expect = 1
    torn_seen = 0
    for rec in out.get('log', []):
        if rec.get('outcome') == 'raise':
            diffs.append('%s raised %s %s' % (rec['op'], rec.get('exc'), rec.get('exc_str', '')))
    for name, text in out.get('files', []):
        lines = text.split('\n')
        tail = lines.pop()          # '' when the file ends with a newline
        for ln in lines:
            try:
                obj = json.loads(ln)
                assert isinstance(obj, dict) and set(obj) == {'t', 'seq', 'type', 'msg'}
            except (ValueError, AssertionError):
                diffs.append('%s: line %r is not a complete record' % (name, ln[:60]))
                continue
            if obj['seq'] != expect:
                diffs.append('%s: sequence number %r where %r is expected' % (name, obj['seq'], expect))
            expect = obj['seq'] + 1
        if tail:
            try:
                obj = json.loads(tail)
                if obj['seq'] != expect:
                    diffs.append('%s: sequence number %r where %r is expected' % (name, obj['seq'], expect))
                expect = obj['seq'] + 1
            except ValueError:
                torn_seen += 1
    if torn_seen > crashes and crashes >= 0:
        diffs.append('%d torn fragments, %d crashes' % (torn_seen, crashes))
    return diffs


def bounded_histories(run, tier, seed):
    """BOUNDED stand-in for the whole-history reading of the property (composition of the per-function contracts over
    histories is a meta-argument, T5): event histories with rotations, restarts and crashes at every byte offset of the
    last write, on the real code with real files; final audit of all files."""
    import random
    import itertools
    from pyvc import replay as RP
    rnd = random.Random(seed)
    W = ['write', 1.0, 2, {'dict': [['msg', {'dict': [['attr', {'dict': []}], ['nlri', {'list': ['1.1.1.0/24']}]]}]]}]
    WB = ['write', 1.0, 2, {'dict': [['msg', {'dict': [['attr', {'hex': '00ff'}]]}]]}]
    U = ['cb', 'update_received', 1.0, {'dict': [['attr', {'dict': []}]]}]
    K = ['cb', 'keepalive_received', 1.0]
    N = ['cb', 'notification_received', {'tuple': [6, 2]}]
    L = ['cb', 'on_connection_lost']
    F = ['cb', 'on_connection_failed', 'refused']
    EVENTS = [W, WB, U, K, N, L, F]
    reqs, meta = [], []
    line_len = 80

    def add(ops, crashes, max_size, peer):
        reqs.append({'kind': 'logfs', 'peer': peer, 'files': [], 'max_size': max_size, 'write_keepalive': True, 'ops': ops})
        meta.append(crashes)
    # exhaustive: every pair of events, a crash at every byte offset of the last write, then two more events
    for a, b in itertools.product(EVENTS, repeat=2):
        for cut in ([0] + list(range(1, line_len, 1 if tier == 'thorough' else 7))):
            ops = [a, b] + ([['truncate', cut]] if cut else []) + [['restart'], W, U]
            add(ops, 1 if cut else 0, 60, '2001:DB8::A' if cut % 2 else '10.0.0.2')
    # random longer histories with rotations / restarts / crashes
    n = 300 if tier == 'thorough' else 60
    for i in range(n):
        ops, crashes = [], 0
        for j in range(rnd.randint(3, 14)):
            r = rnd.random()
            if r < 0.70:
                ops.append(rnd.choice(EVENTS))
            elif r < 0.80:
                ops.append(['restart'])
            elif ops and ops[-1][0] in ('write', 'cb') and ops[-1] is not K:
                ops.append(['truncate', rnd.randint(1, 40)])
                ops.append(['restart'])
                crashes += 1
            else:
                ops.append(['rotate'])
        add(ops, crashes, rnd.choice([1, 60, 200, 100000]), rnd.choice(['10.0.0.2', 'FE80::A']))
    outs = RP.run_native(reqs, timeout_s=900)
    bad = 0
    for req, crashes, out in zip(reqs, meta, outs):
        if out.get('outcome') != 'done':
            diffs = ['harness: %s' % out.get('error', out.get('outcome'))]
        else:
            # a truncation can remove more than the last line only if the line is shorter than the cut: then the cut
            # simply tore an earlier record — still one torn fragment per crash
            diffs = audit(out, crashes)
        if diffs:
            bad += 1
            run.bounded_violations.append(('history-audit', {'request': req, 'observed': out, 'spec_disagreements': diffs, 'confirmed': True}))
    run.bounded = {'what': 'event histories on the real DefaultHandler with real files (native/runner.py logfs): all ordered pairs of 7 events, '
                           'a crash at byte offsets of the last write (every offset in the thorough tier), restart, two more events; plus '
                           '%d seeded random histories (3..14 steps, rotations with thresholds 1/60/200/100000 bytes, restarts, crashes)' % n,
                   'histories': len(reqs), 'failed': bad, 'label': 'bounded — not counted as proved'}
    run.functions_bounded = ['DefaultHandler.* (history composition)']
    return bad


def run(tier, seed, only=None):
    prog = pyvc.make_program()
    install_handler_model(prog.models)
    install_fs_objects(prog.models)
    known = load_known()
    run = Run(ID, tier, seed)
    run.trusted = [T3, T5, T6, 'T3-fs: file system / json model stated in props/C20.py (append-only files; a crash leaves any prefix of the '
                   'last un-synced line; json.loads of a proper prefix raises ValueError; a new time-stamped name sorts after the existing ones; '
                   'simplejson = json)']
    run.assumptions = ['one peer per handler (as yabgp runs)',
                       'restart is verified on ten directory states (empty, complete, rotated, empty newest file(s), torn last line, only a torn '
                       'line in the newest file, unterminated complete last line, torn tail in an older file) with symbolic sequence numbers; the '
                       'crash cut position is abstracted to "torn fragment" (any proper prefix)',
                       'history composition (each step preserves: complete lines numbered consecutively in name order, counter = last + 1, '
                       'current file = newest with a clean tail) is a meta-argument over the per-function contracts, cross-checked by the '
                       'BOUNDED native history sweep',
                       'time.time() is increasing and "%s.msg" % time.time() sorts after older names (same number of integer digits)']
    gl_q = DH + 'get_last_seq_and_file'
    all_units = units(prog)
    gl_unit = [u for u in all_units if u.qual == gl_q][0]
    for u in all_units:
        if only and u.name not in only:
            continue
        if u.name == 'DefaultHandler.init_msg_file':
            prog.contracts[gl_q] = Contract(gl_q, lambda c, msg_path: gl_contract(c, msg_path))
        run.run_unit(u, prog)
        run.vacuity_check(u)
        prog.contracts.pop(gl_q, None)
    prog.models.fs = None
    run.triage_all(known)
    run.replay_findings()
    if not only:
        bounded_histories(run, tier, seed)
    return run.finish(known)


def gl_contract(c, msg_path):
    files = c.it.prog.models.fs.files
    sp = Spec()
    sp.ret = (spec_last_seq(files), spec_append_file(files))
    return sp
