"""Verification units of the session layer."""
import z3
from pyvc.values import SNum, SBytes, SBool, Obj
from pyvc.session import Session
from pyvc.driver import Unit
from contracts import session as CS, timer as CT

ALL_SESSION_PROPS = ('C01', 'C02', 'C03', 'C12', 'C13', 'C18')
EXTRA = {'header_error': ['sub', 'data'], 'open_message_error': ['sub', 'data'],
         'notification_received': ['err', 'sub']}


def build_fsm(it, extra=(), receiver='fsm', pre=None):
    p = it.p
    wp = p.branch(z3.Bool('with_protocol'))
    S = Session(it, with_protocol=wp)
    if pre is not None:
        p.assume(pre(S))
        if not p.check_feasible_now():
            from pyvc.values import Infeasible
            raise Infeasible()
    roots = [S.fsm, S.peering, it.prog.models.conf] + ([S.P] if S.P else [])
    recv = {'fsm': S.fsm, 'peering': S.peering, 'protocol': S.P}[receiver]
    args = [recv]
    for e in extra:
        if e == 'sub':
            v = SNum(z3.Int('suberror'))
            p.assume(z3.And(v.t >= 0, v.t <= 255))
            args.append(v)
        elif e == 'err':
            v = SNum(z3.Int('error'))
            p.assume(z3.And(v.t >= 0, v.t <= 255))
            args.append(v)
        elif e == 'data':
            args.append(SBytes.fresh('data'))
    return roots, args, {}, S


C12_UNITS = ('BGPPeering.connect', 'BGPPeering.connect_retry', 'BGPPeering.buildProtocol', 'BGPPeering.clientConnectionFailed',
             'BGPPeering.connection_closed', 'BGP.connectionLost', 'BGP.connectionMade', 'BGP.closeConnection',
             'FSM._close_connection', 'FSM._error_close', 'FSM.manual_stop', 'BGPPeering.manual_stop', 'BGPPeering.manual_start',
             'BGPPeering.automatic_start', 'FSM.connect_retry_time_event', 'FSM.idle_hold_time_event', 'FSM.connection_failed',
             'BGPPeering.connection_closed[untracked]', 'BGP.connectionLost[untracked]')
STATS = ('Opens', 'Notifications', 'Updates', 'Keepalives', 'RouteRefresh')


def clause_props(name):
    """which properties an obligation of a session unit counts for (by the clause it states)"""
    unit = name.split('/', 1)[0]
    out = set()
    if 'requires:C12' in name or 'ghost.n_pending' in name or 'C12-' in name:
        return {'C12'}
    if 'requires:C13' in name or 'C13-' in name:
        return {'C13'}
    if 'C02-' in name:
        return {'C02'}
    if 'NoPoison' in name or 'C05-' in name or 'C05 ' in name:
        return {'C02', 'C05'}
    if 'dict.' in name and any(('dict.' + k) in name for k in STATS):
        return {'C18'}
    if 'C18-' in name:
        return {'C18'}
    if 'C19-' in name:
        return {'C19'}
    if '/post:Inv/I3' in name or '/post:Inv/I4' in name or 'hold_timer.' in name or 'ka_timer.' in name or \
            'keep_alive_time' in name or 'fsm.hold_time' in name:
        out |= {'C01', 'C03'}
    if 'outcome' in name or '/variant' in name:
        out |= {'C01', 'C10'}
    if unit in ('BGP.parse_buffer', 'BGP.dataReceived') or unit.startswith('loop@'):
        out |= {'C01', 'C04', 'C10'}
    if unit in ('FSM.manual_stop', 'BGPPeering.manual_stop', 'BGPPeering.manual_start', 'FSM.manual_start'):
        out |= {'C01', 'C13'}
    if unit in ('BGP._open_received', 'BGP.negotiate_hold_time'):
        out |= {'C01', 'C05'}
    if unit == 'BGP.connectionMade' and ('effect' in name or 'capabilit' in name):
        # the OPEN a new connection sends, and the forgetting of the previous peer's capabilities before it is built:
        # C05 (depends on configuration only) and C02 (nothing of an earlier session changes what the next one is offered)
        out |= {'C02', 'C05'}
    if unit in ('BGP._update_received',):
        out |= {'C01', 'C10'}
    if unit in C12_UNITS and not ('dict.' in name and any(('dict.' + k) in name for k in STATS)):
        out |= {'C01', 'C12'}     # the connection-management mechanisms themselves
    if 'I5-idle-no-live-connection' in name:
        out |= {'C01', 'C12'}     # nothing live is left behind in Idle
    if '/post:Inv/' in name and not any(x in name for x in ('C12-', 'C13-', 'C02-')):
        out |= {'C10'}            # C10 (f): the agent is left in a clean state after any input
    if 'Inv/state-range' in name:
        out |= {'C01', 'C02'}     # C02: the FSM is never left in a state no handler gets it out of
    if not out:
        out = {'C01'}
    return out


def st_in(*states):
    return lambda S: z3.Or([S.st.t == k for k in states])


def fsm_event_units(props=ALL_SESSION_PROPS, rows=None):
    """rows: optional {method: precondition over the Session} restricting the (state, event) rows"""
    units = []
    for name, spec in CS.FSM_EVENT_SPECS.items():
        if rows is not None and name not in rows:
            continue
        pre = rows.get(name) if rows is not None else None
        units.append(Unit('FSM.' + name, CS.FSM + name,
                          (lambda it, n=name, pre=pre: build_fsm(it, EXTRA.get(n, ()), 'fsm', pre)), spec,
                          kind='session', receiver='fsm', method=name, props=props, clause_props=clause_props))
    return units


def helper_units(props=ALL_SESSION_PROPS):
    units = []
    for q, spec in CS.HELPER_SPECS.items():
        cls, name = q.split('.')[-2:]
        recv = 'fsm' if cls == 'FSM' else 'protocol'
        extra = ['err', 'sub', 'data'] if name == 'send_notification' else []

        def b(it, recv=recv, extra=extra):
            if recv == 'protocol':
                S = Session(it, with_protocol=True)
                roots = [S.fsm, S.peering, it.prog.models.conf, S.P]
                args = [S.P]
                p = it.p
                for e in extra:
                    if e in ('sub', 'err'):
                        v = SNum(z3.Int('suberror' if e == 'sub' else 'error'))
                        p.assume(z3.And(v.t >= 0, v.t <= 255))
                        args.append(v)
                    else:
                        args.append(SBytes.fresh('data'))
                return roots, args, {}, S
            return build_fsm(it, extra, recv)
        units.append(Unit('%s.%s' % (cls, name), q, b, spec, kind='session', receiver=recv, method=name,
                          props=props, clause_props=clause_props))
    return units


def timer_units(props):
    units = []
    for name, spec, nargs in (('cancel', CT.spec_cancel, 0), ('reset', CT.spec_reset, 1), ('active', CT.spec_active, 0)):
        units.append(Unit('BGPTimer.' + name, CT.Q + name, (lambda it, n=nargs: CT.build_concrete(it, n)), spec,
                          kind='timer', props=props, verify_kw={'abstraction': CT._abs}))
    return units


def rx_units(props=ALL_SESSION_PROPS + ('C04', 'C05', 'C10'), rows=None, caps_variants=False):
    from contracts import protocol_rx as RX
    units = []

    def b(it, name):
        p = it.p
        cv = None
        if caps_variants and name == '_open_received':
            cv = caps_variant(it)
            cv['remote'] = {}
        S = Session(it, with_protocol=True, peer_id_fork=(name in ('_open_received', 'parse_buffer')), concrete_caps=cv)
        if rows is not None and rows.get(name) is not None:
            p.assume(rows[name](S))
            if not p.check_feasible_now():
                from pyvc.values import Infeasible
                raise Infeasible()
        roots = [S.fsm, S.peering, it.prog.models.conf, S.P]
        args = [S.P]
        if name == 'parse_buffer':
            # named views of the header fields, so that known-finding regions can speak about them
            b_ = S.buf
            p.assume(z3.Int('rx_type') == b_.at(18))
            p.assume(z3.Int('rx_len') == b_.be_int(16, 2))
            p.assume(z3.Int('rx_buffered') == b_.len)
        if name in ('_open_received', '_update_received', '_keepalive_received'):
            m_ = SBytes.fresh('msg')
            p.assume(z3.Int('msg_len') == m_.len)
            args += [SNum(z3.Real('timestamp')), m_]
        elif name == '_notification_received':
            e, sub = SNum(z3.Int('error')), SNum(z3.Int('suberror'))
            p.assume(z3.And(e.t >= 0, e.t <= 255, sub.t >= 0, sub.t <= 255))
            args += [(e, sub, SBytes.fresh('data'))]
        elif name == '_route_refresh_received':
            afi, res, safi = SNum(z3.Int('afi')), SNum(z3.Int('res')), SNum(z3.Int('safi'))
            mt = SNum(z3.Int('msg_type'))
            p.assume(z3.Or(mt.t == 5, mt.t == 128))
            args += [(afi, res, safi), mt]
        return roots, args, {}, S
    for name, spec in RX.RX_SPECS.items():
        units.append(Unit('BGP.' + name, CS.BGP + name, (lambda it, n=name: b(it, n)), spec, kind='session',
                          receiver='protocol', method=name, props=props, clause_props=clause_props,
                          verify_kw=({'light': True} if name == '_update_received' else {})))
        if name == '_open_received':
            units[-1].materialise = materialise_open
        if name == '_update_received':
            units[-1].materialise = materialise_update
    q = CS.BGP + 'negotiate_hold_time'

    def bn(it):
        S = Session(it, with_protocol=True)
        h = SNum(z3.Int('proposed_hold'))
        it.p.assume(z3.And(h.t >= 0, h.t <= 65535))
        return [S.fsm, S.peering, it.prog.models.conf, S.P], [S.P, h], {}, S
    units.append(Unit('BGP.negotiate_hold_time', q, bn, RX.HELPER_SPECS[q], kind='session', receiver='protocol',
                      method='negotiate_hold_time', props=props, clause_props=clause_props))
    return units


def _mconst(model, name, default=None):
    for d in model.decls():
        if str(d) == name:
            v = model[d]
            if z3.is_int_value(v):
                return v.as_long()
            if z3.is_true(v):
                return True
            if z3.is_false(v):
                return False
    return default


def synth_open_body(model, body):
    """OPEN body consistent with the abstract decode oracles of the model (see p_open_parse_abs)"""
    if len(body) < 10:
        return body
    fixed = bytearray(body[:10])
    if fixed[9] == 0:
        return bytes(fixed)
    k = _mconst(model, 'ora!open-opt!0', 3)
    addpath = b'\x02\x06\x45\x04\x00\x01\x01\x03' if _mconst(model, 'ora!open-addpath!0', False) else b''
    if k == 0:
        params = b'\x01\x00' if _mconst(model, 'ora!open-ome-unsup-param!0', True) else b'\x02\x01\x41'
    elif k == 1:
        params = b'\x02\x04\x41\x02\x00\x01'           # capability 65 with a 2-octet value: struct.error
    elif k == 2:
        asn4 = _mconst(model, 'ora!open-asn4!0', 0)
        params = b'\x02\x06\x41\x04' + asn4.to_bytes(4, 'big') + addpath
    else:
        params = b'\x02\x06\x01\x04\x00\x01\x00\x01' + addpath
    fixed[9] = len(params)
    return bytes(fixed) + params


def materialise_open(unit, outcome, model, req):
    from pyvc import replay as RP
    body = RP.unj(req['args'][1])
    req['args'][1] = RP.jval(synth_open_body(model, body))
    return req


def materialise_update(unit, outcome, model, req):
    from pyvc import replay as RP
    if _mconst(model, 'ora!update_receive_version-raises!0', False):
        return None
    k = _mconst(model, 'ora!update-parse!0', 1)
    body = {0: b'', 1: b'\x00\x00\x00\x00', 2: b'\x00\x00\x00\x04\x40\x01\x01\x07'}[k]
    req['args'][1] = RP.jval(body)
    return req


def data_received_unit(props=ALL_SESSION_PROPS + ('C04', 'C10')):
    from contracts import protocol_rx as RX
    holder = {}

    def b(it):
        S = Session(it, with_protocol=True)
        holder['S'] = S
        it.loop_rule = RX.dataReceived_loop_rule(S)
        return [S.fsm, S.peering, it.prog.models.conf, S.P], [S.P, SBytes.fresh('data')], {}, S
    u = Unit('BGP.dataReceived', CS.BGP + 'dataReceived', b, RX.spec_dataReceived, kind='session', receiver='protocol',
             method='dataReceived', props=props, clause_props=clause_props)
    return u


def peering_units(props=ALL_SESSION_PROPS + ('C10',)):
    from contracts import peering as PE
    units = []

    def mk(q, spec):
        cls, name = q.split('.')[-2:]
        recv = {'BGPPeering': 'peering', 'FSM': 'fsm', 'BGP': 'protocol'}[cls]

        def b(it, name=name, recv=recv):
            p = it.p
            wp = True if recv == 'protocol' else p.branch(z3.Bool('with_protocol'))
            S = Session(it, with_protocol=wp, bgp_id_none=(name == 'connectionMade' and p.branch(z3.Bool('bgp_id_unset'))),
                        concrete_caps=(caps_variant(it) if name == 'connectionMade' else None))
            roots = [S.fsm, S.peering, it.prog.models.conf, S.ghost] + ([S.P] if S.P else [])
            r = {'fsm': S.fsm, 'peering': S.peering, 'protocol': S.P}[recv]
            args = [r]
            if name in ('automatic_start', 'manual_start'):
                args.append(p.branch(z3.Bool('idle_hold')))
            elif name == 'connection_closed':
                k = p.choose(3, 'pro')
                if k == 0 and S.P is not None:
                    args.append(S.P)
                elif k == 1:
                    args.append(None)
                else:
                    # C12 regime: a connection that is no longer the tracked one reports its close
                    old = Obj(it.prog.func('yabgp.core.protocol.BGP'), tag='P_old')
                    old.f.update({'fsm': S.fsm, 'factory': S.peering, 'bgp_peering': S.peering, 'disconnected': True,
                                  'transport': Obj('Transport', {'connected': 0, 'disconnecting': True}, tag='transport_old')})
                    roots.append(old)
                    args.append(old)
            elif name == 'clientConnectionFailed':
                args += [Obj('Connector', {}), Obj('Reason', {})]
                consume_attempt(it, S)
            elif name == 'buildProtocol':
                args.append(Obj('Addr', {'host': '10.0.0.2', 'port': 179}))
                consume_attempt(it, S)
            elif name == 'connectionLost':
                args.append(Obj('Reason', {}))
            return roots, args, {}, S
        return Unit('%s.%s' % (cls, name), q, b, spec, kind='session', receiver=recv, method=name, props=props,
                    clause_props=clause_props)
    for q, spec in list(PE.HELPER_SPECS.items()) + list(PE.ENTRY_SPECS.items()):
        units.append(mk(q, spec))
    return units


def consume_attempt(it, S):
    """T1: buildProtocol / clientConnectionFailed are delivered for an outstanding connectTCP attempt, which
    thereby stops being outstanding (ghost n_pending)"""
    n = S.ghost.f['n_pending']
    if isinstance(n, int):
        S.ghost.f['n_pending'] = n - 1
        return
    it.p.assume(n.t >= 1)
    S.ghost.f['n_pending'] = it.m.binop(it, 'Sub', n, 1)


def tx_units(props=('C16', 'C18')):
    from contracts import protocol_tx as TX
    units = []

    def mk(q, spec):
        name = q.split('.')[-1]

        def b(it, name=name):
            p = it.p
            remote = {}
            if name == 'send_route_refresh':
                k = p.choose(3, 'rr-cap')
                if k == 0:
                    remote = {'cisco_route_refresh': True, 'route_refresh': True, 'afi_safi': [(1, 1), (2, 1)]}
                elif k == 1:
                    remote = {'route_refresh': True, 'afi_safi': [(1, 1), (1, 128)]}
                else:
                    remote = {'afi_safi': [(1, 1)]}
            S = Session(it, with_protocol=True)
            S.caps['remote'] = remote
            args = [S.P]
            if name in ('write_tcp_thread', 'send_bin_update'):
                args.append(SBytes.fresh('octets'))
            elif name == 'send_update':
                from pyvc.values import Opaque
                args.append({'attr': Opaque('attr', 'dict'), 'nlri': Opaque('nlri', 'list'), 'withdraw': Opaque('withdraw', 'list')})
            elif name == 'send_route_refresh':
                afi, safi, res = SNum(z3.Int('afi')), SNum(z3.Int('safi')), SNum(z3.Int('res'))
                p.assume(z3.And(afi.t >= 0, afi.t <= 65535, safi.t >= 0, safi.t <= 255, res.t >= 0, res.t <= 255))
                args += [afi, safi, res]
            return [S.fsm, S.peering, it.prog.models.conf, S.P], args, {}, S
        u = Unit('BGP.' + name, q, b, spec, kind='session', receiver='protocol', method=name, props=props,
                 clause_props=clause_props)
        return u
    for q, spec in TX.TX_SPECS.items():
        units.append(mk(q, spec))
    return units


def caps_variant(it):
    """running-config capability sets for the units that build the OPEN: remote set empty or left over from an
    earlier session (connectionMade must reset it), local set in three shapes"""
    k = it.p.choose(3, 'caps-variant')
    local = [
        {'afi_safi': [(1, 1)], 'four_bytes_as': True, 'route_refresh': True, 'cisco_route_refresh': True,
         'enhanced_route_refresh': True, 'graceful_restart': False, 'cisco_multi_session': True, 'add_path': None},
        {'afi_safi': [(1, 1), (1, 128)], 'four_bytes_as': False, 'route_refresh': True, 'cisco_route_refresh': False,
         'enhanced_route_refresh': False, 'graceful_restart': False, 'cisco_multi_session': False, 'add_path': 'ipv4_both',
         'ext_nexthop': [{'afi_safi': [1, 128], 'nexthop_afi': 2}]},
        {'afi_safi': [(2, 1)], 'four_bytes_as': True, 'route_refresh': False, 'cisco_route_refresh': False,
         'enhanced_route_refresh': False, 'graceful_restart': False, 'cisco_multi_session': False, 'add_path': 'ipv4_send'},
    ][k]
    remote = {} if it.p.branch(z3.Bool('remote_caps_empty')) else {'four_bytes_as': True, 'afi_safi': [(1, 1)], 'route_refresh': True}
    return {'local': local, 'remote': remote}


def open_units(props=('C05', 'C01', 'C18')):
    """BGP.send_open and BGP.capability_negotiate on their real bodies (Open.construct executed for real)"""
    from contracts import open_send as OSD
    from contracts.timer import wrap
    from props.common import session_vis
    units = []
    for name, spec in (('send_open', session_vis(wrap(OSD.p_send_open))), ('capability_negotiate', wrap(OSD.p_capability_negotiate))):
        def b(it, name=name):
            cv = caps_variant(it)
            cv['remote'] = {}
            S = Session(it, with_protocol=True, concrete_caps=cv)
            it.p.assume(S.H.t == S.cfgH.t)
            return [S.fsm, S.peering, it.prog.models.conf, S.P], [S.P], {}, S
        units.append(Unit('BGP.' + name, CS.BGP + name, b, spec, kind='session', receiver='protocol', method=name,
                          props=props, clause_props=clause_props))
    return units
