"""Verification units of the session layer."""
import z3
from pyvc.values import SNum, SBytes, SBool
from pyvc.session import Session
from pyvc.driver import Unit
from contracts import session as CS, timer as CT

ALL_SESSION_PROPS = ('C01', 'C02', 'C03', 'C12', 'C13', 'C18')
EXTRA = {'header_error': ['sub', 'data'], 'open_message_error': ['sub', 'data'],
         'notification_received': ['err', 'sub']}


def build_fsm(it, extra=(), receiver='fsm', pre=None):
    p = it.p
    wp = p.branch(z3.Bool('with_protocol'))
    S = Session(it, with_protocol=wp)
    if pre is not None:
        p.assume(pre(S))
        if not p.check_feasible_now():
            from pyvc.values import Infeasible
            raise Infeasible()
    roots = [S.fsm, S.peering, it.prog.models.conf] + ([S.P] if S.P else [])
    recv = {'fsm': S.fsm, 'peering': S.peering, 'protocol': S.P}[receiver]
    args = [recv]
    for e in extra:
        if e == 'sub':
            v = SNum(z3.Int('suberror'))
            p.assume(z3.And(v.t >= 0, v.t <= 255))
            args.append(v)
        elif e == 'err':
            v = SNum(z3.Int('error'))
            p.assume(z3.And(v.t >= 0, v.t <= 255))
            args.append(v)
        elif e == 'data':
            args.append(SBytes.fresh('data'))
    return roots, args, {}, S


def clause_props(name):
    """which properties an obligation of a session unit counts for"""
    if '/post:Inv/I4' in name or 'hold_timer.' in name or 'ka_timer.' in name:
        return ('C01', 'C03')
    if 'dict.' in name and ('Notifications' in name or 'Keepalives' in name or 'Opens' in name or
                            'Updates' in name or 'RouteRefresh' in name):
        return ('C01', 'C18')
    return None


def st_in(*states):
    return lambda S: z3.Or([S.st.t == k for k in states])


def fsm_event_units(props=ALL_SESSION_PROPS, rows=None):
    """rows: optional {method: precondition over the Session} restricting the (state, event) rows"""
    units = []
    for name, spec in CS.FSM_EVENT_SPECS.items():
        if rows is not None and name not in rows:
            continue
        pre = rows.get(name) if rows is not None else None
        units.append(Unit('FSM.' + name, CS.FSM + name,
                          (lambda it, n=name, pre=pre: build_fsm(it, EXTRA.get(n, ()), 'fsm', pre)), spec,
                          kind='session', receiver='fsm', method=name, props=props, clause_props=clause_props))
    return units


def helper_units(props=ALL_SESSION_PROPS):
    units = []
    for q, spec in CS.HELPER_SPECS.items():
        cls, name = q.split('.')[-2:]
        recv = 'fsm' if cls == 'FSM' else 'protocol'
        extra = ['err', 'sub', 'data'] if name == 'send_notification' else []

        def b(it, recv=recv, extra=extra):
            if recv == 'protocol':
                S = Session(it, with_protocol=True)
                roots = [S.fsm, S.peering, it.prog.models.conf, S.P]
                args = [S.P]
                p = it.p
                for e in extra:
                    if e in ('sub', 'err'):
                        v = SNum(z3.Int('suberror' if e == 'sub' else 'error'))
                        p.assume(z3.And(v.t >= 0, v.t <= 255))
                        args.append(v)
                    else:
                        args.append(SBytes.fresh('data'))
                return roots, args, {}, S
            return build_fsm(it, extra, recv)
        units.append(Unit('%s.%s' % (cls, name), q, b, spec, kind='session', receiver=recv, method=name,
                          props=props, clause_props=clause_props))
    return units
