"""Closed lemmas over spec functions (no code) used by the session-layer properties."""
import z3
from pyvc.driver import Lemma
from pyvc.values import SBytes, CUR
from pyvc.paths import Path


def for_prop(pid):
    from contracts import session as CS
    out = []
    if pid == 'C01':
        out.append(lambda prog: Lemma('dead-entry-points', lambda: CS.lemma_delay_open_dead(prog), props=(pid,)))
    if pid == 'C04':
        out.append(lambda prog: Lemma('FRAME-prefix-stable', lambda: frame_prefix_stable(prog), props=(pid,)))
    if pid == 'C03':
        out.append(lambda prog: Lemma('timing', timing_lemmas, props=(pid,)))
    if pid == 'C02':
        out.append(lambda prog: Lemma('progress-rank', progress_lemmas, props=(pid,)))
    return out


def frame_prefix_stable(prog):
    """FRAME(b) in {Msg, HeaderErr}  ==>  for every suffix s: FRAME(b ++ s) = FRAME(b).
    From it, segmentation independence of the message sequence follows by induction over the cut points (T5):
    a complete frame is decided by its own octets, an incomplete one is re-examined when more arrive."""
    from pyvc.interp import Interp
    from pyvc.contracts import SpecCtx, Sim
    from contracts import protocol_rx as RX
    from pyvc.paths import explore, Outcome
    obs = []

    def run_one(p):
        it = Interp(prog)
        b = SBytes.fresh('b')
        sfx = SBytes.fresh('s')
        s1 = Sim(SpecCtx(it, 'verify', 'lemma'))
        f1 = RX.frame(s1, b)
        if f1[0] == 'incomplete':
            return Outcome('return')
        f2 = RX.frame(s1, b.concat(sfx))
        name = 'prefix-stable/%s' % f1[0]
        if f2[0] != f1[0]:
            p.prove(name, z3.BoolVal(False), detail='FRAME(b)=%s but FRAME(b++s)=%s' % (f1[0], f2[0]))
            return Outcome('return')
        if f1[0] == 'hdrerr':
            p.prove(name + '/subcode', z3.BoolVal(f1[1] == f2[1]))
        else:
            from pyvc.values import to_term, bytes_eq_term
            p.prove(name + '/type', to_term(f1[1]) == to_term(f2[1]))
            p.prove(name + '/length', to_term(f1[3]) == to_term(f2[3]))
            p.prove(name + '/body', bytes_eq_term(f1[2], f2[2]))
        return Outcome('return')
    outs = explore(run_one)
    for o in outs:
        for ob in o.path.obligations:
            obs.append((ob.name, ob.facts, ob.goal))
    return obs


def timing_lemmas():
    """C03's three timing claims from the timer clauses (closed arithmetic over a symbolic timeline, T1:
    a DelayedCall fires exactly at its deadline unless reset/cancelled)."""
    H = z3.Int('H')
    t_ka_sent, t_next = z3.Reals('t_ka_sent t_next')
    t_rx, t_arr, t_fire = z3.Reals('t_rx t_arr t_fire')
    Hr = z3.ToReal(H)
    out = []
    # L1: keepalive timer armed at (send time + H/3) and firing at its deadline => gap <= H/3
    out.append(('keepalive-gap', [H > 0, t_next == t_ka_sent + Hr / 3], t_next - t_ka_sent <= Hr / 3))
    # L2: hold timer armed at t_rx + H; an arrival at t_arr < t_rx + H resets it before it can fire
    out.append(('no-expiry-while-arrivals', [H > 0, t_fire == t_rx + Hr, t_arr > t_rx, t_arr - t_rx < Hr], t_arr < t_fire))
    # L3: no arrival => expiry exactly H after the last arrival
    out.append(('expiry-at-H', [H > 0, t_fire == t_rx + Hr], t_fire - t_rx == Hr))
    return out


def progress_lemmas():
    """C02 progress half: under a cooperative environment the rank strictly decreases along
    Idle(idle-hold armed) -> Connect -> OpenSent -> OpenConfirm -> Established, and the deadline of each step is
    bounded (idle_hold_time, connect timeout 30 s, peer's answers).  The per-step facts are postconditions
    of the verified handlers; this lemma is the arithmetic that chains them."""
    st, st2 = z3.Ints('st st2')

    def rank(s):
        return z3.If(s == 1, 4, z3.If(s == 2, 3, z3.If(s == 4, 2, z3.If(s == 5, 1, 0))))
    out = []
    for (a, b, nm) in ((1, 2, 'idle-hold-expiry'), (2, 4, 'connect-success'), (4, 5, 'valid-open'), (5, 6, 'keepalive')):
        out.append(('rank-decreases/' + nm, [st == a, st2 == b], rank(st2) < rank(st)))
    t0, ih, tc, slack, t_est = z3.Reals('t0 ih tc slack t_est')
    out.append(('time-bound', [ih >= 0, tc >= 0, slack >= 0, t_est <= t0 + ih + tc + slack], t_est - t0 <= ih + tc + slack))
    return out
