"""C14 — OPEN, NOTIFICATION, KEEPALIVE and ROUTE-REFRESH encode and decode faithfully."""
import z3
from .common import *
from .codec_units import CodecUnit, sym_int, any_int
from pyvc.values import SNum, SBool, SBytes, mk_num, to_term
from pyvc import strings as STR
from pyvc.strings import SStr, Atom
from specs import wire, open as OS, S as SP

ID = 'C14'
M = 'yabgp.message.'
MHE = 'yabgp.common.exception.MessageHeaderError'
OME = 'yabgp.common.exception.OpenMessageError'


def in_range(it, v, lo, hi):
    """fork on lo <= v <= hi"""
    if isinstance(v, int):
        return lo <= v <= hi
    return it.p.branch(z3.And(to_term(v) >= lo, to_term(v) <= hi))


# ---------------------------------------------------------------- NOTIFICATION / KEEPALIVE / ROUTE-REFRESH
def units_simple():
    us = []

    def notif_args(it):
        return [any_int(it, 'error'), any_int(it, 'suberror'), SBytes.fresh('data')]

    def notif_expect(it, error, suberror, data):
        if not (in_range(it, error, 0, 255) and in_range(it, suberror, 0, 255)):
            return 'exc', 'struct.error'
        if not it.p.branch(data.len + 21 <= 65535):
            return 'exc', 'struct.error'
        return 'ret', wire.notification(error, suberror, data)
    us.append(CodecUnit('Notification.construct', M + 'notification.Notification.construct', notif_args, notif_expect,
                        props=(ID, 'C08'), instance=(M + 'notification.Notification', None)))

    def notif_parse_expect(it, message):
        m = SBytes.of(message)
        if it.p.branch(m.len < 2):
            return 'exc', 'struct.error'
        return 'ret', (mk_num(m.at(0)), mk_num(m.at(1)), m.slice(2, None))
    us.append(CodecUnit('Notification.parse', M + 'notification.Notification.parse', lambda it: [SBytes.fresh('message')],
                        notif_parse_expect, props=(ID,)))
    us.append(CodecUnit('KeepAlive.construct', M + 'keepalive.KeepAlive.construct', lambda it: [],
                        lambda it: ('ret', wire.keepalive()), props=(ID, 'C08'), instance=(M + 'keepalive.KeepAlive', None)))

    def ka_parse_expect(it, msg):
        if it.p.branch(SBytes.of(msg).len == 0):
            return 'ret', None
        return 'exc+', (MHE, {'sub_error': wire.HDR_BAD_LEN})
    us.append(CodecUnit('KeepAlive.parse', M + 'keepalive.KeepAlive.parse', lambda it: [SBytes.fresh('msg')],
                        ka_parse_expect, props=(ID,)))

    def rr_init(it):
        return [any_int(it, 'afi'), any_int(it, 'safi'), any_int(it, 'res')]

    def rr_expect_factory():
        def expect(it, msg_type):
            # the instance fields are the init args, in order (afi, safi, res)
            afi, safi, res = it._rr_fields
            if not (in_range(it, afi, 0, 65535) and in_range(it, res, 0, 255) and in_range(it, safi, 0, 255) and
                    in_range(it, msg_type, 0, 255)):
                return 'exc', 'struct.error'
            return 'ret', wire.route_refresh(afi, res, safi, msg_type)
        return expect

    def rr_args(it):
        return [any_int(it, 'msg_type')]

    class RRUnit(CodecUnit):
        pass
    u = CodecUnit('RouteRefresh.construct', M + 'route_refresh.RouteRefresh.construct', rr_args, rr_expect_factory(),
                  props=(ID, 'C08'), instance=(M + 'route_refresh.RouteRefresh', rr_init))
    # make the init args visible to the expectation
    orig_build = u.build

    def build(it):
        r = orig_build(it)
        it._rr_fields = r[3]['init']
        return r
    u.build = build
    us.append(u)

    def rr_parse_expect(it, msg):
        m = SBytes.of(msg)
        if not it.p.branch(m.len == 4):
            return 'exc', 'struct.error'
        return 'ret', (mk_num(m.be_int(0, 2)), mk_num(m.at(2)), mk_num(m.at(3)))
    us.append(CodecUnit('RouteRefresh.parse', M + 'route_refresh.RouteRefresh.parse', lambda it: [SBytes.fresh('msg')],
                        rr_parse_expect, props=(ID,), instance=(M + 'route_refresh.RouteRefresh', None)))
    return us


# ---------------------------------------------------------------- OPEN encoder (also C05, C08)
def local_shapes(it):
    """the configured capability sets the encoder is verified for: every key combination the configuration
    code can produce is a sub-shape of these; leaf values are symbolic"""
    a1, s1 = sym_int(it, 'afi1', 0, 65535), sym_int(it, 'safi1', 0, 255)
    a2, s2 = sym_int(it, 'afi2', 0, 65535), sym_int(it, 'safi2', 0, 255)
    k = it.p.choose(6, 'local-shape')
    if k == 0:
        return {'afi_safi': [(a1, s1)], 'four_bytes_as': True, 'route_refresh': True, 'cisco_route_refresh': True,
                'enhanced_route_refresh': True, 'graceful_restart': False, 'cisco_multi_session': True, 'add_path': None}
    if k == 1:
        return {'afi_safi': [(a1, s1), (a2, s2)], 'four_bytes_as': False, 'route_refresh': True,
                'cisco_route_refresh': False, 'enhanced_route_refresh': False, 'graceful_restart': False,
                'cisco_multi_session': False, 'add_path': 'ipv4_both'}
    if k == 2:
        return {'afi_safi': [(a1, s1)], 'four_bytes_as': True, 'route_refresh': False, 'cisco_route_refresh': True,
                'enhanced_route_refresh': True, 'add_path': 'ipv4_send',
                'ext_nexthop': [{'afi_safi': [sym_int(it, 'enh_afi', 0, 65535), sym_int(it, 'enh_safi', 0, 65535)],
                                 'nexthop_afi': sym_int(it, 'enh_nh', 0, 65535)}]}
    if k == 3:
        return {}
    if k == 4:
        return {'afi_safi': [], 'four_bytes_as': True, 'add_path': 'ipv4_receive'}
    return {'afi_safi': [(a1, s1), (a2, s2), (a1, s2)], 'four_bytes_as': True, 'route_refresh': True,
            'cisco_route_refresh': True, 'enhanced_route_refresh': True, 'add_path': 'ipv4_both',
            'ext_nexthop': [{'afi_safi': [1, 128], 'nexthop_afi': 2}, {'afi_safi': [1, 1], 'nexthop_afi': 2}]}


def unit_open_construct():
    def init(it):
        return [sym_int(it, 'version', 0, 255), sym_int(it, 'asn', 0, 2 ** 32 - 1), any_int(it, 'hold_time'),
                any_int(it, 'bgp_id')]

    def args(it):
        return [local_shapes(it)]

    def expect(it, my_capability):
        version, asn, hold, bgp_id = it._open_fields
        big = it.p.branch(to_term(asn) > 65535)
        items = OS.local_cap_items(big, asn, my_capability)
        asn2 = OS.AS_TRANS if big else asn
        if not (in_range(it, hold, 0, 65535) and in_range(it, bgp_id, 0, 2 ** 32 - 1)):
            return 'exc', 'struct.error'
        params = [[i] for i in items]
        body = OS.open_body(version, asn2, hold, bgp_id, params)
        return 'ret', wire.header(wire.T_OPEN, body)
    u = CodecUnit('Open.construct', M + 'open.Open.construct', args, expect, props=(ID, 'C05', 'C08'),
                  instance=(M + 'open.Open', init))
    ob = u.build

    def build(it):
        r = ob(it)
        it._open_fields = r[3]['init']
        return r
    u.build = build
    return u


# ---------------------------------------------------------------- OPEN decoder on reference encodings
def cap_scenarios(it):
    """capability lists (with packaging) the decoder is verified on: values symbolic, kinds and packaging enumerated.
    BOUNDED in the number of capabilities per message (<= 4); unbounded in every field value."""
    def I(n, lo, hi):
        return sym_int(it, n, lo, hi)
    as4 = ('as4', I('cap_as4', 0, 2 ** 32 - 1))
    mp1 = ('mp', I('mp_afi', 0, 65535), I('mp_safi', 0, 255))
    mp2 = ('mp', I('mp_afi2', 0, 65535), I('mp_safi2', 0, 255))
    ap = ('addpath', [(1, 1, it.p.concretize(I('ap_sr', 1, 3).t, what='add-path send/receive'))])
    ap2 = ('addpath', [(1, 1, 3), (2, 1, 1)])
    ap_b = ('addpath', [(2, 1, 2)])
    enh = ('enh', [(I('enh_afi', 0, 65535), I('enh_safi', 0, 65535), I('enh_nh', 0, 65535))])
    llgr = ('llgr', [(I('ll_afi', 0, 65535), I('ll_safi', 0, 255), I('ll_fl', 0, 255), I('ll_t', 0, 2 ** 24 - 1))])
    unk_code = I('unk_code', 0, 255)
    it.p.assume(z3.And([unk_code.t != c for c in (1, 2, 5, 64, 65, 69, 70, 71, 128, 131)]))
    unk_val = SBytes.fresh('unk_val')
    nv = it.p.concretize(unk_val.len, limit=4, what='unknown capability length') if it.p.branch(unk_val.len <= 2) else None
    if nv is None:
        raise_infeasible()
    unk = ('unknown', unk_code, unk_val)
    scen = [
        [],                                                   # no optional parameters at all
        [[as4]], [[mp1]], [[('rr',)]], [[('rr_cisco',)]], [[('err',)]], [[('gr',)]], [[('multisession',)]],
        [[ap]], [[ap2]], [[enh]], [[llgr]], [[unk]],
        [[mp1], [('rr_cisco',)], [('rr',)], [as4]],           # one capability per parameter (what yabgp sends)
        [[mp1, ('rr',), as4, ('err',)]],                      # several capabilities in one parameter
        [[mp1, mp2], [as4, ap]],                              # mixed packaging
        [[unk, ('rr',)], [llgr]],
        [[]],                                                 # an empty capabilities parameter
        [[ap], [mp1], [ap_b]],                                # ADD-PATH as one capability per address family (RFC 7911 allows it)
        [[ap_b, ap]],                                         # ... or as two TLVs inside one parameter
    ]
    k = it.p.choose(len(scen), 'cap-scenario')
    return scen[k]


def raise_infeasible():
    from pyvc.values import Infeasible
    raise Infeasible()


def unit_open_parse():
    holder = {}

    def args(it):
        version = sym_int(it, 'version', 0, 255)
        asn2 = sym_int(it, 'asn2', 0, 65535)
        hold = sym_int(it, 'hold', 0, 65535)
        bgp_id = sym_int(it, 'bgp_id', 0, 2 ** 32 - 1)
        params = cap_scenarios(it)
        it._open_in = (version, asn2, hold, bgp_id, params)
        body = OS.open_body(version, asn2, hold, bgp_id, params)
        return [SBytes.of(body)]

    def expect(it, message):
        version, asn2, hold, bgp_id, params = it._open_in
        if not it.p.branch(to_term(version) == 4):
            return 'exc+', (OME, {'sub_error': wire.OPEN_BAD_VERSION})
        if it.p.branch(to_term(asn2) == 0):
            return 'exc+', (OME, {'sub_error': wire.OPEN_BAD_PEER_AS})
        items = [i for p in params for i in p]
        consts = it.prog.module('yabgp.common.constants').g
        render = {'afi_safi': lambda a, s: consts['AFI_SAFI_DICT'][(a, s)],
                  'repr_bytes': lambda b: it.m.to_repr(it, b),
                  'key': lambda code: it.hashable(it.m.to_str(it, code))}
        caps = OS.decoded_caps(items, render)
        return 'ret', {'version': version, 'asn': OS.effective_as(asn2, items), 'hold_time': hold,
                       'bgp_id': STR.ip4(bgp_id), 'capabilities': caps}
    u = CodecUnit('Open.parse', M + 'open.Open.parse', args, expect, props=(ID, 'C05'), instance=(M + 'open.Open', None),
                  concrete_loops=True)
    return u


def unit_open_roundtrip():
    """Open.parse(body of Open.construct(v)) returns v — both REAL functions composed (C14 round trip)"""
    def init(it):
        return [4, sym_int(it, 'asn', 1, 2 ** 32 - 1), sym_int(it, 'hold_time', 0, 65535), sym_int(it, 'bgp_id', 0, 2 ** 32 - 1)]
    # the harness is two real calls: construct, strip the 19-octet header, parse
    return None


# ---------------------------------------------------------------- lemmas (spec level round trips)
def lemmas():
    from pyvc.paths import Path
    from pyvc.values import CUR, bytes_eq_term
    out = []
    p = Path([], [])
    CUR.path = p
    try:
        code, sub = z3.Ints('l_code l_sub')
        data = SBytes.fresh('l_data')
        facts = [code >= 0, code <= 255, sub >= 0, sub <= 255, data.len + 21 <= 4096]
        msg = SBytes.of(wire.notification(SNum(code), SNum(sub), data))
        body = msg.slice(19, None)
        out.append(('notification-roundtrip/code', facts + list(p.facts), body.at(0) == code))
        out.append(('notification-roundtrip/subcode', facts + list(p.facts), body.at(1) == sub))
        out.append(('notification-roundtrip/data', facts + list(p.facts), bytes_eq_term(body.slice(2, None), data)))
        out.append(('notification-header-length', facts + list(p.facts), msg.be_int(16, 2) == msg.len))
        afi, res, safi, t = z3.Ints('l_afi l_res l_safi l_t')
        f2 = [afi >= 0, afi <= 65535, res >= 0, res <= 255, safi >= 0, safi <= 255, z3.Or(t == 5, t == 128)]
        rr = SBytes.of(wire.route_refresh(SNum(afi), SNum(res), SNum(safi), SNum(t)))
        out.append(('route-refresh-roundtrip', f2 + list(p.facts),
                    z3.And(rr.be_int(19, 2) == afi, rr.at(21) == res, rr.at(22) == safi, rr.at(18) == t, rr.len == 23,
                           rr.be_int(16, 2) == 23)))
        ka = SBytes.of(wire.keepalive())
        out.append(('keepalive-shape', [], z3.And(ka.len == 19, ka.be_int(16, 2) == 19, ka.at(18) == 4)))
    finally:
        CUR.path = None
    return out


def run(tier, seed, only=None):
    prog = pyvc.make_program()
    install_handler_model(prog.models)
    known = load_known()
    run = Run(ID, tier, seed)
    run.trusted = [T3, T4, T5, T6]
    run.assumptions = [T3, T4, LOGGING,
                       'OPEN decoding: capability kinds / packaging are an enumerated set of scenarios (<= 4 capabilities per '
                       'message): BOUNDED in the shape, unbounded in every field value; unbounded termination of the capability loops is C11',
                       'OPEN encoding: verified for six configured capability-set shapes covering every key the configuration code produces']
    units = units_simple() + [unit_open_construct(), unit_open_parse()]
    for u in units:
        if only and u.name not in only:
            continue
        run.run_unit(u, prog)
        run.vacuity_check(u)
    if not only:
        run.run_lemma(Lemma('spec-roundtrips', lemmas, props=(ID,)))
    run.triage_all(known)
    run.replay_findings()
    run.witness_check(cap=None if tier == 'thorough' else 60)
    return run.finish(known)
