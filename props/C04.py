"""C04 — Byte-stream framing is independent of TCP segmentation and always terminates"""
from .session_prop import *

ID = 'C04'


def run(tier, seed, only=None):
    from contracts import session as CS
    lemmas = LEMMAS(ID)
    return run_session(ID, tier, seed, only=only, select=lambda u: u.name in ('BGP.parse_buffer', 'BGP.dataReceived', 'FSM.header_error', 'BGP.send_notification', 'BGP.closeConnection', 'FSM._error_close', 'FSM._close_connection'), lemmas=lemmas)


def LEMMAS(pid):
    from . import session_lemmas as SL
    return SL.for_prop(pid)
