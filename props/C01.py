"""C01 — Session state machine follows the RFC 4271 profile for every event order."""
from .common import *
from . import session_units as SU

ID = 'C01'


def run(tier, seed, only=None):
    prog = make_prog()
    known = load_known()
    run = Run(ID, tier, seed)
    run.trusted = [T1, T2, T3, T4, T5, T6]
    run.assumptions = [T1, T2, T4, LOGGING]
    for u in SU.timer_units((ID,)) + SU.helper_units() + SU.fsm_event_units() + SU.rx_units():
        if only and u.name not in only:
            continue
        run.run_unit(u, prog)
        run.vacuity_check(u)
    from contracts import session as CS
    if not only:
        run.run_lemma(Lemma('dead-entry-points', lambda: CS.lemma_delay_open_dead(prog), props=(ID,)))
    run.triage_all(known)
    run.replay_findings()
    run.witness_check(cap=None if tier == 'thorough' else 40)
    return run.finish(known)
