"""C01 — Session state machine follows the RFC 4271 profile for every event order"""
from .session_prop import *

ID = 'C01'


def run(tier, seed, only=None):
    from contracts import session as CS
    lemmas = LEMMAS(ID)
    return run_session(ID, tier, seed, only=only, select=None, lemmas=lemmas)


def LEMMAS(pid):
    from . import session_lemmas as SL
    return SL.for_prop(pid)
