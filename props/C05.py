"""C05 — Each session's OPEN and its acceptance policy depend only on configuration."""
from .session_prop import *
from . import session_units as SU
from . import C14

ID = 'C05'


def run(tier, seed, only=None):
    prog = make_prog()
    known = load_known()
    run = Run(ID, tier, seed)
    run.trusted = [T1, T3, T4, T5, T6]
    run.assumptions = [T1, T4, LOGGING, A_CONFIG,
                       'the OPEN octets are verified for three configured capability-set shapes (send_open) and six (Open.construct), '
                       'symbolic in AS number, hold time and identifier; the peer OPEN enters _open_received through the abstract decode '
                       'view that C14 verifies Open.parse against (capability 65 present or not, the AS it carries)']
    units = SU.open_units(props=(ID,))
    units += [u for u in SU.peering_units() if u.name in ('BGP.connectionMade',)]
    units += [u for u in SU.fsm_event_units() if u.name in ('FSM.connection_made',)]
    rx = SU.rx_units(rows={'_open_received': SU.st_in(4)}, caps_variants=True)
    units += [u for u in rx if u.name in ('BGP._open_received', 'BGP.negotiate_hold_time')]
    units += [C14.unit_open_construct(), C14.unit_open_parse()]
    for u in units:
        if only and u.name not in only:
            continue
        u.props = tuple(set(u.props) | {ID})
        if u.kind == 'session':
            u.clause_props = (lambda name: set() if ('dict.' in name and any(k in name for k in SU.STATS)) else {ID})
        run.run_unit(u, prog)
        run.vacuity_check(u)
    run.triage_all(known)
    run.replay_findings()
    run.witness_check(cap=None if tier == 'thorough' else 40)
    add_samples(run)
    return run.finish(known)
