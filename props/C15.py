"""C15 — List decoders are compositional; attribute order is irrelevant."""
import z3
from .common import *
from . import update_units as UU
from pyvc.values import SBytes

ID = 'C15'


def run(tier, seed, only=None):
    prog = pyvc.make_program()
    install_handler_model(prog.models)
    known = load_known()
    run = Run(ID, tier, seed)
    run.trusted = [T3, T4, T5, T6]
    run.assumptions = [T3, T4, LOGGING, UU.BOUND_NOTE,
                       'compositionality DEC(a++b) = DEC(a)++DEC(b) follows by list induction (T5) from the per-iteration step obligations: '
                       'one iteration decodes exactly the first element from its own octets and leaves exactly the rest',
                       'list kinds under a step contract: IPv4 prefix lists (with and without add-path), path-attribute TLV stream; cluster list / '
                       'communities / AS_PATH / large communities on enumerated shapes; OPEN capabilities on enumerated packagings (C14); '
                       'MP families, BGP-LS and Prefix-SID TLV streams: termination only (C11), not claimed here']
    units = UU.step_units((ID,)) + UU.coupled_order_units((ID,))
    units += [u for u in UU.update_units((ID,)) if u.name in ('Update.parse', 'Update.parse_prefix_list')]
    units += [u for u in UU.units((ID,)) if u.name in ('ClusterList.parse', 'Community.parse', 'ASPath.parse', 'LargeCommunity.parse')]
    from . import C14
    units.append(C14.unit_open_parse())        # OPEN capabilities: packagings incl. one capability split over several TLVs
    for u in units:
        if only and u.name not in only:
            continue
        u.props = (ID,)
        run.run_unit(u, prog)
        if u.kind != 'step' and 'coupled' not in u.name:
            run.vacuity_check(u)
    run.triage_all(known)
    run.replay_findings()
    run.witness_check(cap=None if tier == 'thorough' else 40)
    return run.finish(known, extra_coverage={'bounded': UU.BOUND})
