"""Per-property drivers: which verification units and lemmas decide each property."""
