"""C08 — Everything the agent constructs is structurally valid BGP on the wire."""
from .common import *
from . import update_units as UU
from . import C14
from specs import attrs as A

ID = 'C08'
FLAG_CLASSES = {'origin.Origin': 1, 'aspath.ASPath': 2, 'nexthop.NextHop': 3, 'med.MED': 4, 'localpref.LocalPreference': 5,
                'atomicaggregate.AtomicAggregate': 6, 'aggregator.Aggregator': 7, 'community.Community': 8,
                'originatorid.OriginatorID': 9, 'clusterlist.ClusterList': 10, 'mpreachnlri.MpReachNLRI': 14,
                'mpunreachnlri.MpUnReachNLRI': 15, 'extcommunity.ExtCommunity': 16, 'largecommunity.LargeCommunity': 32,
                'pmsitunnel.PMSITunnel': 22, 'tunnelencaps.TunnelEncaps': 23}


def flag_lemma(prog):
    """the flag constant each attribute class emits equals the RFC category of its type code (high three bits)"""
    import z3
    out = []
    for q, code in FLAG_CLASSES.items():
        if code == 32:
            continue        # LARGE_COMMUNITIES: decided by its construct unit (open known finding KF-C08-1)
        cls = prog.func('yabgp.message.attribute.' + q)
        flag = cls.lookup('FLAG')
        ident = cls.lookup('ID')
        out.append(('flags/%s' % q.split('.')[1], [], z3.BoolVal(int(flag) & 0xE0 == A.CATEGORY[code] and int(ident) == code)))
    return out


def run(tier, seed, only=None):
    prog = pyvc.make_program()
    install_handler_model(prog.models)
    known = load_known()
    run = Run(ID, tier, seed)
    run.trusted = [T3, T4, T5, T6]
    run.assumptions = [T3, T4, LOGGING, UU.BOUND_NOTE,
                       'structural validity is proved as EQUALITY with a reference encoding built only from the structural combinators '
                       'header / attr (1- or 2-octet length chosen by size, extended-length bit agreeing) / prefix (ceil(len/8) octets)',
                       'IPv6 flowspec: only the prefix component encoder is under contract; the MP families are under contract in C07 (value contracts against reference encodings, which include every length field)']
    units = [u for u in UU.units((ID,)) if u.name.endswith('.construct')]
    units += [u for u in UU.update_units((ID,)) if 'construct' in u.name]
    units += [u for u in C14.units_simple() if u.name.endswith('.construct')] + [C14.unit_open_construct()]
    from .framing_units import framing_units
    units += framing_units((ID,), strict=False)
    units += UU.tunnel_encaps_units((ID,)) + UU.pmsi_units((ID,)) + UU.srte_units((ID,)) + UU.flowspec6_units((ID,))
    from .framing_units import encoder_step_units
    units += encoder_step_units((ID,))
    for u in units:
        if only and u.name not in only:
            continue
        u.props = (ID,)
        run.run_unit(u, prog)
        if u.kind != 'step':
            run.vacuity_check(u)
    if not only:
        run.run_lemma(Lemma('attribute-flag-categories', lambda: flag_lemma(prog), props=(ID,)))
    run.triage_all(known)
    run.replay_findings()
    run.witness_check(cap=None if tier == 'thorough' else 40)
    return run.finish(known, extra_coverage={'bounded': UU.BOUND})
