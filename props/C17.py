"""C17 — Decoded community text is accepted back by the REST API and re-encodes the same.

Per extended-community kind k with symbolic fields f:
   text = RENDER_k(f)                                  (RFC 4360 / 5575 / 7432 value layout, yabgp's documented text form)
   (D) ExtCommunity.parse(ENC_k(f))        == [text]                         real decoder
   (T) the update view given {16: [text]}  hands  [TRANSLATED_k(f)]  to the send path     real view code (string handling)
   (E) ExtCommunity.construct([TRANSLATED_k(f)]) == attr(0xC0, 16, ENC_k(f))  real encoder
so posting the decoder's text produces the RFC octets, which decode to the identical text.
"""
import z3
from .common import *
from . import C16
from .codec_units import CodecUnit, sym_int
from pyvc.values import SNum, SBool, SBytes, Obj, mk_num, to_term
from pyvc.contracts import Sim, Spec, ANY, Any, Contract
from pyvc.session import Session, ST_ESTABLISHED
from pyvc import strings as STR
from pyvc.strings import SStr, Atom
from contracts.timer import SimExc
from contracts import session as CS, protocol_tx as TX
from specs import S as SP, attrs as A

ID = 'C17'
EC = 'yabgp.message.attribute.extcommunity.ExtCommunity.'


def dec(v):
    return STR.dec(v) if not isinstance(v, int) else str(v)


def mac_text(v):
    return SStr([Atom('mac', to_term(v))])


KINDS = ['rt0', 'rt1', 'rt2', 'ro0', 'ro1', 'ro2', 'color', 'encap', 'redirect-vrf', 'redirect-nexthop', 'traffic-action',
         'traffic-marking', 'dmzlink-bw', 'esi-label', 'mac-mobility', 'es-import', 'router-mac']


def fields(it, kind):
    I = lambda n, lo, hi: sym_int(it, n, lo, hi)
    if kind in ('rt0', 'ro0', 'redirect-vrf', 'dmzlink-bw'):
        return {'asn': I('asn', 0, 65535), 'an': I('an', 0, 2 ** 32 - 1)}
    if kind in ('rt1', 'ro1'):
        return {'ip': I('ip', 0, 2 ** 32 - 1), 'an': I('an', 0, 65535)}
    if kind in ('rt2', 'ro2'):
        return {'asn': I('asn', 65536, 2 ** 32 - 1), 'an': I('an', 0, 65535)}
    if kind in ('color', 'encap'):
        return {'v': I('v', 0, 2 ** 32 - 1)}
    if kind == 'redirect-nexthop':
        return {'ip': I('ip', 0, 2 ** 32 - 1), 'flag': I('flag', 0, 65535)}
    if kind == 'traffic-action':
        return {'s': I('s', 0, 1), 't': I('t', 0, 1)}
    if kind == 'traffic-marking':
        return {'dscp': I('dscp', 0, 255)}
    if kind == 'esi-label':
        return {'flag': I('flag', 0, 255), 'label': I('label', 0, 2 ** 20 - 1)}
    if kind == 'mac-mobility':
        return {'flag': I('flag', 0, 255), 'seq': I('seq', 0, 2 ** 32 - 1)}
    if kind in ('es-import', 'router-mac'):
        return {'mac': I('mac', 0, 2 ** 48 - 1)}
    raise ValueError(kind)


TYPE = {'rt0': 0x0002, 'rt1': 0x0102, 'rt2': 0x0202, 'ro0': 0x0003, 'ro1': 0x0103, 'ro2': 0x0203, 'color': 0x030b,
        'encap': 0x030c, 'redirect-vrf': 0x8008, 'redirect-nexthop': 0x0800, 'traffic-action': 0x8007,
        'traffic-marking': 0x8009, 'dmzlink-bw': 0x4004, 'esi-label': 0x0601, 'mac-mobility': 0x0600, 'es-import': 0x0602,
        'router-mac': 0x0603}


def enc(kind, f):
    """the 8 octets RFC encoding of the value (type high/low, 6 value octets)"""
    t = SP.be(TYPE[kind], 2)
    if kind in ('rt0', 'ro0', 'redirect-vrf', 'dmzlink-bw'):
        return SP.cat(t, SP.be(f['asn'], 2), SP.be(f['an'], 4))
    if kind in ('rt1', 'ro1'):
        return SP.cat(t, SP.be(f['ip'], 4), SP.be(f['an'], 2))
    if kind in ('rt2', 'ro2'):
        return SP.cat(t, SP.be(f['asn'], 4), SP.be(f['an'], 2))
    if kind in ('color', 'encap'):
        return SP.cat(t, b'\x00\x00', SP.be(f['v'], 4))
    if kind == 'redirect-nexthop':
        return SP.cat(t, SP.be(f['ip'], 4), SP.be(f['flag'], 2))
    if kind == 'traffic-action':
        return SP.cat(t, b'\x00\x00\x00\x00\x00', SP.be(mk_num(to_term(f['s']) * 2 + to_term(f['t'])), 1))
    if kind == 'traffic-marking':
        return SP.cat(t, b'\x00\x00\x00\x00\x00', SP.be(f['dscp'], 1))
    if kind == 'esi-label':
        return SP.cat(t, SP.be(f['flag'], 1), b'\x00\x00', SP.be(mk_num(to_term(f['label']) * 16 + 1), 3))
    if kind == 'mac-mobility':
        return SP.cat(t, SP.be(f['flag'], 1), b'\x00', SP.be(f['seq'], 4))
    if kind in ('es-import', 'router-mac'):
        return SP.cat(t, SP.be(f['mac'], 6))
    raise ValueError(kind)


def text(kind, f):
    name = {'rt0': 'route-target', 'rt1': 'route-target', 'rt2': 'route-target', 'ro0': 'route-origin', 'ro1': 'route-origin',
            'ro2': 'route-origin', 'color': 'color', 'encap': 'encapsulation', 'redirect-vrf': 'redirect-vrf',
            'redirect-nexthop': 'redirect-nexthop', 'traffic-action': 'traffic-action', 'traffic-marking': 'traffic-marking-dscp',
            'dmzlink-bw': 'dmzlink-bw', 'esi-label': 'esi-label', 'mac-mobility': 'mac-mobility', 'es-import': 'es-import',
            'router-mac': 'router-mac'}[kind]
    if kind in ('rt0', 'ro0', 'rt2', 'ro2', 'redirect-vrf', 'dmzlink-bw'):
        return STR.concat([name, ':', dec(f['asn']), ':', dec(f['an'])])
    if kind in ('rt1', 'ro1'):
        return STR.concat([name, ':', STR.ip4(f['ip']), ':', dec(f['an'])])
    if kind in ('color', 'encap'):
        return STR.concat([name, ':', dec(f['v'])])
    if kind == 'redirect-nexthop':
        return STR.concat([name, ':', STR.ip4(f['ip']), ':', dec(f['flag'])])
    if kind == 'traffic-action':
        return STR.concat([name, ':S:', dec(f['s']), ',T:', dec(f['t'])])
    if kind == 'traffic-marking':
        return STR.concat([name, ':', dec(f['dscp'])])
    if kind == 'esi-label':
        return STR.concat([name, ':', dec(f['flag']), ':', dec(f['label'])])
    if kind == 'mac-mobility':
        return STR.concat([name, ':', dec(f['flag']), ':', dec(f['seq'])])
    if kind in ('es-import', 'router-mac'):
        return STR.concat([name, ':', mac_text(f['mac'])])
    raise ValueError(kind)


def translated(kind, f):
    """the [code, value...] item the update view hands to ExtCommunity.construct for the text form"""
    if kind in ('rt0', 'ro0', 'rt2', 'ro2', 'redirect-vrf', 'dmzlink-bw'):
        return [TYPE[kind], STR.concat([dec(f['asn']), ':', dec(f['an'])])]
    if kind in ('rt1', 'ro1'):
        return [TYPE[kind], STR.concat([STR.ip4(f['ip']), ':', dec(f['an'])])]
    if kind in ('color', 'encap'):
        return [TYPE[kind], dec(f['v'])]
    if kind == 'redirect-nexthop':
        return [TYPE[kind], STR.ip4(f['ip']), f['flag']]
    if kind == 'traffic-action':
        return [TYPE[kind], {'s': f['s'], 't': f['t']}]
    if kind == 'traffic-marking':
        return [TYPE[kind], f['dscp']]
    if kind in ('esi-label', 'mac-mobility'):
        return [TYPE[kind], f['flag'], f['label'] if kind == 'esi-label' else f['seq']]
    if kind in ('es-import', 'router-mac'):
        return [TYPE[kind], mac_text(f['mac'])]
    raise ValueError(kind)


def pick_kind(it):
    k = it.p.concretize(sym_int(it, 'ec_kind', 0, len(KINDS) - 1).t, what='extended community kind')
    return KINDS[k]


def units(prog):
    us = []

    def p_args(it):
        kind = pick_kind(it)
        f = fields(it, kind)
        it._ec = (kind, f)
        return [SBytes.of(enc(kind, f))]
    us.append(CodecUnit('ExtCommunity.parse', EC + 'parse', p_args, lambda it, v: ('ret', [text(*it._ec)]),
                        props=(ID, 'C06', 'C09'), concrete_loops=True))

    def c_args(it):
        kind = pick_kind(it)
        f = fields(it, kind)
        it._ec = (kind, f)
        return [[translated(kind, f)]]
    us.append(CodecUnit('ExtCommunity.construct', EC + 'construct', c_args,
                        lambda it, v: ('ret', A.attr(16, enc(*it._ec))), props=(ID, 'C06', 'C08')))

    # accumulation: each element's octets are appended to what was accumulated before (any list length, any position)
    from .framing_units import acc_step_unit

    def step_elem(it):
        kind = pick_kind(it)
        f = fields(it, kind)
        return translated(kind, f), enc(kind, f)
    us.append(acc_step_unit('ExtCommunity.construct[step]', EC + 'construct', 'ext_community_hex', step_elem, (ID, 'C06', 'C08')))

    # the view's text -> item translation (real string handling of v1.send_update_message)
    def build(it):
        kind = pick_kind(it)
        f = fields(it, kind)
        caps = {'local': {'four_bytes_as': True, 'afi_safi': [(1, 1)]}, 'remote': {'four_bytes_as': True, 'afi_safi': [(1, 1)]}}
        S = Session(it, with_protocol=True, concrete_caps=caps)
        it.p.assume(S.st.t == ST_ESTABLISHED)
        C16.conf_for_rest(it, S)
        js = {'attr': {'1': 0, '2': [], '3': '10.0.0.1', '5': 100, '16': [text(kind, f)]}, 'nlri': ['1.1.1.0/24']}
        it.prog.models.flask_request.f['json'] = js
        it.prog.models.flask_request.f['args'] = {}
        it._ec = (kind, f, S)
        return [S.fsm, S.peering, S.P, S.ghost], [], {'peer_ip': '10.0.0.2'}, S

    def vis(effects):
        return [e for e in effects if e[0] in ('Call',)]

    def spec(c, *a, **k):
        kind, f, S = c.it._ec
        s = Sim(c)
        for d in (S.P.f['send_version'], S.P.f['adj_rib_out'], S.P.f['adj_rib_out']['ipv4'], S.P.f['msg_sent_stat']):
            s.dont_care_all(d)
        for kk in ('adj_rib_out', 'send_version', 'flowspec_send_dict', 'sr_send_dict', 'mpls_vpn_send_dict'):
            s.dont_care(S.P, kk)
        msg = {'attr': {1: 0, 2: [], 3: '10.0.0.1', 5: 100, 16: [translated(kind, f)]}, 'nlri': ['1.1.1.0/24'], 'withdraw': []}
        s.eff('Call', CS.BGP + 'send_update', (msg,))
        s.ret = ANY
        sp = s.spec()
        sp.effects = vis(sp.effects)
        sp.effect_filter = vis
        return sp
    us.append(Unit('v1.send_update_message[ext-community text]', 'yabgp.api.v1.send_update_message', build, spec, kind='view',
                   props=(ID,)))

    # the second REST entry point with its own copy of the translation: json_to_bin hands the same item to the encoder
    def spec_j2b(c, *a, **k):
        kind, f, S = c.it._ec
        s = Sim(c)
        msg = {'attr': {1: 0, 2: [], 3: '10.0.0.1', 5: 100, 16: [translated(kind, f)]}, 'nlri': ['1.1.1.0/24'], 'withdraw': []}
        s.eff('Call', CS.BGP + 'construct_update_to_bin', (msg,))
        s.ret = ANY
        sp = s.spec()
        sp.effects = vis(sp.effects)
        sp.effect_filter = vis
        return sp
    us.append(Unit('v1.json_to_bin[ext-community text]', 'yabgp.api.v1.json_to_bin', build, spec_j2b, kind='view', props=(ID,)))
    return us


def run(tier, seed, only=None):
    prog = make_prog()
    q = CS.BGP + 'send_update'
    prog.contracts[q] = Contract(q, prog.contracts[q].spec, mark=True)
    # construct_update_to_bin: observed through a marked contract (its result — octets or the text "construct failed" — is
    # not constrained here; the encoder itself is the ExtCommunity.construct unit)
    q2 = CS.BGP + 'construct_update_to_bin'
    prog.contracts[q2] = Contract(q2, lambda c, P, msg: Spec(ret=SBytes.fresh('update_bin')), mark=True)
    known = load_known()
    run = Run(ID, tier, seed)
    run.trusted = [T3, T4, T5, T6, 'T3-flask: request.get_json() returns the posted JSON object; decorators transparent']
    run.assumptions = [T3, T4, 'traffic-rate carries an IEEE float (struct format f): outside the engine, NOT covered by this check',
                       'communities (all 2^32 values incl. well-known names) and large communities pass through the view unchanged; '
                       'their text <-> octets round trip is the Community / LargeCommunity units of C06, run here as well',
                       '4-octet-AS route-target / route-origin need the peer to have advertised capability 65 (as the view requires)']
    from . import update_units as UU
    units_ = units(prog) + [u for u in UU.units((ID,)) if u.name.split('.')[0] in ('Community', 'LargeCommunity')]
    for u in units_:
        if only and u.name not in only:
            continue
        u.props = (ID,)
        u.clause_props = None
        run.run_unit(u, prog)
        if u.kind != 'step':
            run.vacuity_check(u)
    run.triage_all(known)
    run.replay_findings()
    run.witness_check(cap=None if tier == 'thorough' else 40)
    return run.finish(known)
