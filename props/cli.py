import argparse
import importlib
import json
import os
import sys
import traceback


def main():
    ap = argparse.ArgumentParser()
    ap.add_argument('prop', nargs='?')
    ap.add_argument('--tier', default=os.environ.get('VERIF_TIER', 'quick'), choices=['quick', 'thorough'])
    ap.add_argument('--replay')
    ap.add_argument('--only', default=None, help='comma-separated unit names (debugging)')
    a = ap.parse_args()
    seed = int(os.environ.get('VERIF_SEED', '0') or 0)
    if a.replay:
        from pyvc import replay as RP
        doc = json.load(open(a.replay))
        req = doc.get('native', {}).get('request') or doc.get('request')
        if not req:
            print('replay file carries no native request (no-failing-input-found); obligation: %s' % doc.get('obligation'))
            print(json.dumps(doc.get('solver'), indent=1)[:3000])
            sys.exit(1)
        out = RP.run_native([req])[0]
        rec = doc.get('native', {}).get('observed') or {}
        keys = ('outcome', 'result', 'exc', 'view', 'files', 'log', 'runs')
        same = all(out.get(k) == rec.get(k) for k in keys if k in rec or k in out)
        print(json.dumps({'obligation': doc.get('obligation'), 'clause': doc.get('clause'),
                          'spec_disagreements_recorded': doc.get('native', {}).get('spec_disagreements'), 'observed': out}, indent=1)[:6000])
        # exit 1: the real code under $VERIF_REPO still behaves as recorded in the replay file (the failure reproduces)
        print('REPLAY: the recorded behaviour %s on the current tree' % ('REPRODUCES' if same else 'does NOT reproduce'))
        sys.exit(1 if same and doc.get('native', {}).get('confirmed') else 0)
    if not a.prop:
        ap.error('property id required')
    try:
        mod = importlib.import_module('props.%s' % a.prop)
        code = mod.run(a.tier, seed, only=a.only.split(',') if a.only else None)
    except SystemExit:
        raise
    except BaseException:
        traceback.print_exc()
        print('CHECKER-ERROR: property=%s checker crashed' % a.prop)
        code = 3
    finally:
        try:
            from pyvc import smt
            smt.close_pool()
        except Exception:
            pass
    sys.exit(code)


if __name__ == '__main__':
    main()
