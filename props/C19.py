"""C19 — Adj-RIB-In and the version counters track exactly the updates applied."""
import z3
from .common import *
from pyvc.values import SNum, SBool, SBytes, Obj, Opaque, to_term, mk_num
from pyvc.contracts import Spec, Sim, ANY, Any, Contract
from pyvc.session import Session
from contracts import session as CS
from contracts.timer import wrap

ID = 'C19'
POOL = ['10.0.0.0/8', '10.1.0.0/16', '192.168.7.0/24']


def sym_rib(it, tag, pool=None):
    """an arbitrary table over the prefix pool: each prefix present or not (forked), attributes symbolic.
    The code only tests membership and equality, so distinct concrete keys are representative of any keys."""
    rib = {}
    for i, p in enumerate(pool or POOL):
        if it.p.branch(z3.Bool('%s_has_%d' % (tag, i))):
            rib[p] = SNum(z3.Int('%s_attr_%d' % (tag, i)))
    return rib


def list_shapes(it, tag):
    shapes = [[], [0], [1], [0, 1], [0, 0], [2, 0]]
    k = it.p.concretize(z3.Int('%s_shape' % tag), what='list shape') if False else it.p.choose(len(shapes), tag)
    return [POOL[i] for i in shapes[k]]


def apply_model(it, rib, msg):
    """reference semantics from the property: withdrawals then announcements, in order; the last announcement's
    attributes win; the counter moves exactly when the table changes (new route, changed attributes, removal of a
    present route)"""
    rib = dict(rib)
    changes = 0
    for p in msg['withdraw']:
        if p in rib:
            del rib[p]
            changes += 1
    for p in msg['nlri']:
        if p not in rib:
            changes += 1
        else:
            same = it.m.equal(it, rib[p], msg['attr'])
            if not it.truth(same):
                changes += 1
        rib[p] = msg['attr']
    return rib, changes


def rib_unit(direction):
    fn = 'update_rib_in_ipv4' if direction == 'in' else 'update_rib_out_ipv4'
    table = 'adj_rib_in' if direction == 'in' else 'adj_rib_out'
    ver = 'receive_version' if direction == 'in' else 'send_version'
    holder = {}

    def build(it):
        S = Session(it, with_protocol=True)
        rib = sym_rib(it, 'rib')
        S.P.f[table] = {'ipv4': rib}
        msg = {'withdraw': list_shapes(it, 'wd'), 'nlri': list_shapes(it, 'nl'), 'attr': SNum(z3.Int('msg_attr'))}
        it._c19 = (S, dict(rib), msg)
        return [S.P], [S.P, msg], {}, S

    def spec(c, P, msg):
        S, rib0, m = c.it._c19
        s = Sim(c)
        new, changes = apply_model(c.it, rib0, m)
        holder_rib = S.P.f[table]['ipv4']
        # expected table: replace content
        for k in set(list(rib0.keys()) + list(new.keys())):
            if k in new:
                s.set(holder_rib, k, new[k])
            else:
                s.delete(holder_rib, k)
        s.rib_expected = new
        vd = S.P.f[ver]
        s.set(vd, 'ipv4', s.add(vd['ipv4'], changes))
        s.ret = True
        sp = s.spec()
        sp.expected_keys = (holder_rib, set(new.keys()))
        sp.effect_filter = lambda eff: [e for e in eff if not e[0].startswith('Radix')]
        return sp
    u = Unit('BGP.' + fn, CS.BGP + fn, build, spec, kind='rib', props=(ID,))
    return u


def flush_units():
    from . import session_units as SU
    out = []
    for u in SU.peering_units((ID,)):
        if u.name == 'BGPPeering.buildProtocol':
            out.append(u)          # a new connection owns fresh tables and counters (clause C19-fresh-tables)
            continue
        if u.name not in ('BGP.connectionMade', 'BGP.connectionLost'):
            continue
        orig = u.build

        def build(it, orig=orig):
            r = orig(it)
            S = r[3]
            # arbitrary non-trivial tables before the connection event
            S.P.f['adj_rib_in'] = {'ipv4': sym_rib(it, 'rin', POOL[:1])}
            S.P.f['adj_rib_out'] = {'ipv4': sym_rib(it, 'rout', POOL[1:2])}
            return r
        u.build = build
        out.append(u)
    return out


def version_unit(name, afi_safi_value, label):
    """update_receive_verion / update_send_version on one flowspec rule: new rule +1, same rule & same attributes 0,
    changed attributes +1; withdraw of a present rule +1, of an absent rule 0"""
    fn = name

    def build(it):
        S = Session(it, with_protocol=True)
        rule = {'1': '192.88.2.3/24', '5': '=80'}
        a = SNum(z3.Int('attr_val'))
        attr = {1: a, 14: {'afi_safi': afi_safi_value, 'nexthop': '', 'nlri': [rule]}}
        pre = it.p.choose(3, 'table-state')          # 0: rule unknown, 1: known with same attrs, 2: known with other attrs
        dname = 'flowspec_receive_dict' if fn == 'update_receive_verion' else 'flowspec_send_dict'
        key = '{"1":"192.88.2.3/24","5":"=80"}'
        table = {}
        if pre == 1:
            table[key] = {1: a, 14: {'afi_safi': afi_safi_value, 'nexthop': ''}}
        elif pre == 2:
            b = SNum(z3.Int('attr_other'))
            it.p.assume(b.t != a.t)
            table[key] = {1: b, 14: {'afi_safi': afi_safi_value, 'nexthop': ''}}
        S.P.f[dname] = table
        it._c19v = (S, pre, dname)
        args = [S.P, attr, [], []] if fn == 'update_receive_verion' else [S.P, '10.0.0.2', attr, [], []]
        return [S.P], args, {}, S

    def spec(c, *a):
        S, pre, dname = c.it._c19v
        s = Sim(c)
        vname = 'receive_version' if fn == 'update_receive_verion' else 'send_version'
        vd = S.P.f[vname]
        s.set(vd, 'flowspec', s.add(vd['flowspec'], 0 if pre == 1 else 1))
        # the table remembers the rule with the attributes of THIS update (without the NLRI list itself)
        attr_arg = a[1] if fn == 'update_receive_verion' else a[2]
        stored = {1: attr_arg[1], 14: {'afi_safi': attr_arg[14]['afi_safi'], 'nexthop': ''}}
        s.set(S.P.f[dname], '{"1":"192.88.2.3/24","5":"=80"}', stored)
        s.ret = None
        return s.spec()
    return Unit('BGP.%s[%s]' % (fn, label), CS.BGP + fn, build, spec, kind='rib', props=(ID,))


def run(tier, seed, only=None):
    prog = make_prog()
    known = load_known()
    run = Run(ID, tier, seed)
    run.trusted = [T1, T3, T5, T6]
    run.assumptions = ['tables are verified over a pool of three distinct prefixes with arbitrary presence and arbitrary attribute values, and '
                       'update lists of up to two entries (repetitions included): the code only tests membership and equality, so the pool is '
                       'representative (data-independence); longer lists follow by induction over the per-prefix loop body (T5)',
                       'radix tree (ip_longest_match index) is opaque and outside the property',
                       'flowspec / VPNv4 version bookkeeping: one-rule scenarios (new / unchanged / changed); the rule key string is built by the real code',
                       'RIB maintenance enabled (CONF.bgp.rib)']
    units = [rib_unit('in'), rib_unit('out')] + flush_units()
    units += [version_unit('update_send_version', [1, 133], 'flowspec as the REST API passes it'),
              version_unit('update_receive_verion', [1, 133], 'flowspec, list form'),
              version_unit('update_receive_verion', (1, 133), 'flowspec as the decoder reports it')]
    for u in units:
        if only and u.name not in only:
            continue
        u.props = (ID,)
        if u.name in ('BGP.connectionMade', 'BGP.connectionLost'):
            u.clause_props = (lambda name: {ID} if 'adj_rib' in name else set())
        elif u.name == 'BGPPeering.buildProtocol':
            u.clause_props = (lambda name: {ID} if 'C19-' in name else set())
        else:
            u.clause_props = (lambda name: {ID})
        run.run_unit(u, prog)
        run.vacuity_check(u)
    run.triage_all(known)
    run.replay_findings()
    return run.finish(known)
