"""C09 — Decoding agrees with an independent RFC encoder, including legal variants."""
from .common import *
from . import update_units as UU

ID = 'C09'


def run(tier, seed, only=None):
    prog = pyvc.make_program()
    install_handler_model(prog.models)
    known = load_known()
    run = Run(ID, tier, seed)
    run.trusted = [T3, T4, T5, T6]
    run.assumptions = [T3, T4, LOGGING, UU.BOUND_NOTE,
                       'decoder specs are three-valued: value for well-formed input, error for the malformations the property lists, unconstrained otherwise',
                       'MP_REACH / MP_UNREACH families are not under contract in this check']
    units = [u for u in UU.units((ID,)) if u.name.endswith('.parse')]
    units += [u for u in UU.update_units((ID,)) if 'parse' in u.name]
    units += UU.step_units((ID,))
    for u in units:
        if only and u.name not in only:
            continue
        u.props = (ID,)
        run.run_unit(u, prog)
        if u.kind != 'step':
            run.vacuity_check(u)
    run.triage_all(known)
    run.replay_findings()
    run.witness_check(cap=None if tier == 'thorough' else 40)
    return run.finish(known, extra_coverage={'bounded': UU.BOUND})
