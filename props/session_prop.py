"""Shared driver for the session-layer properties (C01 C02 C03 C04 C10 C12 C13 C18)."""
from .common import *
from . import session_units as SU


def all_session_units(ID=None):
    us = (SU.timer_units(SU.ALL_SESSION_PROPS) + SU.helper_units() + SU.fsm_event_units() + SU.rx_units() +
          [SU.data_received_unit()] + SU.peering_units())
    if ID in ('C16', 'C18'):
        us += SU.tx_units()
    return us


def run_session(ID, tier, seed, only=None, select=None, lemmas=(), assumptions=(), trusted=None, note='',
                witness_cap=40, extra=None, with_decoders=False):
    prog = make_prog()
    known = load_known()
    if ID in ('C13', 'C12'):
        from contracts import session as CS
        prog.contracts[CS.FSM + 'manual_stop'] = Contract(CS.FSM + 'manual_stop', CS.ev_manual_stop_c13)
    run = Run(ID, tier, seed)
    run.trusted = trusted or [T1, T2, T3, T4, T5, T6]
    run.assumptions = [T1, T2, T4, LOGGING, A_QUEUE, A_CONFIG, A_ASSUMED_CODECS, A_INV_KF] + list(assumptions)
    for u in all_session_units(ID):
        if select is not None and not select(u):
            continue
        if only and u.name not in only:
            continue
        u.props = tuple(set(u.props) | {ID})
        if ID in ('C13', 'C12') and u.name in ('FSM.manual_stop', 'BGPPeering.manual_stop'):
            # C13 states its own rule for the Cease (only from Established); the RFC rows are C01's
            from contracts import session as CS, peering as PE
            u.spec = CS.ev_manual_stop_c13 if u.name == 'FSM.manual_stop' else PE.p_manual_stop_c13
        run.run_unit(u, prog)
        if u.verdicts or u.result.paths:
            run.vacuity_check(u)
    if with_decoders:
        # C10 "no endless loop" rests on the termination of every decoder: the C11 units are part of this check
        from . import C11 as D
        inv = D.inventory(prog.repo)
        D.load_all_message_modules(prog)
        for (mod, cls, fn, loops) in inv:
            f0 = prog.func('%s.%s.%s' % (mod, cls, fn))
            variants = [None]
            if f0.kind == 'classmethod' and D.needs_subclass(f0):
                variants = D.leaf_subclasses(prog, f0.cls) or [None]
            for sc in variants:
                u = D.term_unit(prog, mod, cls, fn, loops, as_cls=sc)
                u.props = (ID,)
                if only and u.name not in only:
                    continue
                saved = dict(prog.contracts)
                prog.contracts.clear()           # decoder units run on the real bodies (their own call abstraction)
                try:
                    run.run_unit(u, prog)
                finally:
                    prog.contracts.update(saved)
        u = D.update_parse_unit(prog)
        u.props = (ID,)
        if not only or u.name in only:
            saved = dict(prog.contracts)
            prog.contracts.clear()
            try:
                run.run_unit(u, prog)
            finally:
                prog.contracts.update(saved)
    if not only:
        for lm in lemmas:
            run.run_lemma(lm(prog) if callable(lm) and not isinstance(lm, Lemma) else lm)
    run.triage_all(known)
    run.replay_findings()
    run.witness_check(cap=None if tier == 'thorough' else witness_cap)
    add_samples(run)
    return run.finish(known, extra_coverage=extra, level_note=note)


def add_samples(run):
    import z3
    for u in run.units:
        for v in (u.verdicts or [])[:1]:
            run.samples.append({'obligation': v.ob.name, 'verdict': {'unsat': 'discharged', 'sat': 'refuted'}.get(v.result, v.result),
                                'backend': v.backend, 'goal': str(z3.simplify(v.ob.goal))[:300],
                                'n_facts': len(v.ob.facts)})
        if len(run.samples) >= 8:
            break
