import z3
import pyvc
from pyvc.contracts import Contract
from pyvc.session import install_handler_model, Session
from pyvc.values import SNum, SBytes, SBool
from pyvc.driver import Unit, Lemma, Run, load_known

T1 = ('T1 environment contract for Twisted (not installed): single reactor thread, callLater/DelayedCall, '
      'transport.write/loseConnection, connectTCP, callFromThread as documented (pyvc/twisted_model.py)')
T2 = 'T2 operator commands are atomic events serialised with reactor callbacks'
T3 = 'T3 library models (struct, binascii, netaddr, str formatting, math, copy) in pyvc/libs.py, pyvc/models.py'
T4 = 'T4 integers mathematical (exact for Python ints); `/` as exact rationals'
T5 = ('T5 meta-arguments not machine-checked: soundness of the path exploration / call / loop rules as implemented '
      '(mitigated: every feasible path is replayed on CPython and must agree); induction over entry points')
T6 = 'T6 the specification library (specs/*.py, contracts/*.py) is the oracle: written from RFC 4271 and the property statements'
LOGGING = 'LOG.* and traceback.format_exc() are treated as total no-ops'
A_QUEUE = 'A-queue: the application does not use the internal message queue drained in _keepalive_received (handler.inter_mq is empty)'
A_CONFIG = 'A-config: the configured hold time is 0 or >= 3 (RFC 4271); connect-retry time >= 1'
A_ASSUMED_CODECS = ('at the session layer Open.parse, Update.parse, BGP.update_receive_verion and BGP.update_rib_in_ipv4 enter through '
                    'ASSUMED abstract contracts (contracts/protocol_rx.py); BGP.send_open through its summary (contracts/open_send.py); '
                    'their own bodies are the business of C14 / C11 / C19 / C05')
A_INV_KF = ('Inv clauses that an open known finding breaks (C12-One, C12-idle-no-attempt, C13-Stopped-no-attempt) are assumed at function entry like '
            'the rest of Inv: proofs hold under the hypothesis that no step of the history lies in an open known-finding region')


def session_vis(spec):
    from contracts.session import visible

    def spec2(c, *a):
        sp = spec(c, *a)
        sp.effects = visible(sp.effects)
        sp.effect_filter = visible
        return sp
    return spec2


def make_prog():
    prog = pyvc.make_program()
    install_handler_model(prog.models)
    from contracts import timer, session, open_send
    session.CONF_REF[0] = prog.models.conf
    for c in timer.CONTRACTS:
        prog.contracts[c.qual] = c
    for q, sp in session.HELPER_SPECS.items():
        prog.contracts[q] = Contract(q, sp)
    prog.contracts[session.BGP + 'send_open'] = Contract(session.BGP + 'send_open', session_vis(timer.wrap(open_send.p_send_open)))
    prog.contracts[session.BGP + 'capability_negotiate'] = Contract(session.BGP + 'capability_negotiate',
                                                                    timer.wrap(open_send.p_capability_negotiate))
    from contracts import protocol_rx as RX
    for q, sp in RX.HELPER_SPECS.items():
        prog.contracts[q] = Contract(q, sp)
    # FSM events and receive handlers are used through their contracts by their callers
    for name, sp in session.FSM_EVENT_SPECS.items():
        prog.contracts[session.FSM + name] = Contract(session.FSM + name, sp)
    for name, sp in RX.RX_SPECS.items():
        if name != 'parse_buffer':
            prog.contracts[session.BGP + name] = Contract(session.BGP + name, sp, mark=True)
    prog.contracts[session.BGP + 'parse_buffer'] = Contract(session.BGP + 'parse_buffer', RX.RX_SPECS['parse_buffer'])
    for q, sp in RX.ASSUMED_SPECS.items():
        prog.contracts[q] = Contract(q, sp, assumed=True)
    from contracts import protocol_tx as TX
    for q, sp in TX.TX_SPECS.items():
        prog.contracts[q] = Contract(q, sp)
    for q, sp in TX.ASSUMED.items():
        prog.contracts[q] = Contract(q, sp, assumed=True)
    from contracts import peering as PE
    for q, sp in PE.HELPER_SPECS.items():
        prog.contracts[q] = Contract(q, sp)
    for q, sp in PE.ENTRY_SPECS.items():
        prog.contracts[q] = Contract(q, sp)
    # ASSUMED abstract contracts at the session layer (owned and verified in full by C14 / C11+C09)
    prog.contracts['yabgp.message.open.Open.parse'] = Contract(
        'yabgp.message.open.Open.parse', timer.wrap(RX.p_open_parse_abs), assumed=True)
    prog.contracts['yabgp.message.update.Update.parse'] = Contract(
        'yabgp.message.update.Update.parse',
        timer.wrap(lambda s, cls, t, msg_hex, asn4=False, afi_add_path=None: RX.p_update_parse_abs(s, msg_hex)),
        assumed=True)
    return prog
