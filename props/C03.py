"""C03 — Hold and keepalive timers keep exactly the negotiated contract."""
from .common import *
from . import session_units as SU

ID = 'C03'


def run(tier, seed, only=None):
    prog = make_prog()
    known = load_known()
    run = Run(ID, tier, seed)
    run.trusted = [T1, T3, T4, T5, T6]
    run.assumptions = [T1, T4, LOGGING, 'keepalive interval H/3 is an exact rational']
    from contracts import timer
    # BGPTimer on the DelayedCall model
    for name, spec, nargs in (('cancel', timer.spec_cancel, 0), ('reset', timer.spec_reset, 1), ('active', timer.spec_active, 0)):
        u = Unit('BGPTimer.' + name, timer.Q + name, (lambda it, n=nargs: timer.build_concrete(it, n)), spec,
                 kind='timer', props=(ID,), verify_kw={'abstraction': timer._abs})
        if only and u.name not in only:
            continue
        run.run_unit(u, prog)
        run.vacuity_check(u)
    # the (state, event) rows C03 speaks about; the other rows of these handlers belong to C01
    rows = {'open_received': SU.st_in(4), 'keep_alive_received': SU.st_in(5, 6), 'update_received': SU.st_in(6),
            'keep_alive_time_event': SU.st_in(5, 6), 'hold_time_event': SU.st_in(4, 5, 6),
            'connection_made': SU.st_in(2)}
    for u in SU.helper_units() + SU.fsm_event_units(rows=rows):
        if u.kind == 'session' and u.name.split('.')[0] != 'FSM':
            continue
        if u.name.startswith('FSM._') and u.name != 'FSM._error_close':
            continue
        if only and u.name not in only:
            continue
        run.run_unit(u, prog)
        run.vacuity_check(u)
    for u in SU.rx_units(rows={'_open_received': SU.st_in(4)}):
        if u.name not in ('BGP.negotiate_hold_time', 'BGP._open_received'):
            continue
        if only and u.name not in only:
            continue
        run.run_unit(u, prog)
        run.vacuity_check(u)
    run.triage_all(known)
    run.replay_findings()
    run.witness_check(cap=None if tier == 'thorough' else 60)
    return run.finish(known)
