"""C16 — REST control surface is authenticated and state-gated; sends are faithful."""
import ast
import os
import z3
from .common import *
from . import session_units as SU
from pyvc.values import SNum, SBool, SBytes, Obj, Opaque, to_term, to_bool_term
from pyvc.contracts import Spec, Contract, Sim, ANY, Any, verify
from pyvc.session import Session, ST_ESTABLISHED
from pyvc import strings as STR
from contracts.timer import wrap, SimExc
from contracts import session as CS, protocol_tx as TX

ID = 'C16'
V1 = 'yabgp.api.v1.'
UT = 'yabgp.api.utils.'


# ---------------------------------------------------------------- (a) authentication: decorator stacks (AST of the file on disk)
def route_table(repo):
    """[(function, rule, methods, [decorator source text in order])] for yabgp/api/v1.py"""
    p = os.path.join(repo, 'yabgp', 'api', 'v1.py')
    out = []
    for n in ast.parse(open(p).read()).body:
        if isinstance(n, ast.FunctionDef):
            decos = [ast.unparse(d) for d in n.decorator_list]
            for d in n.decorator_list:
                if isinstance(d, ast.Call) and ast.unparse(d.func) == 'blueprint.route':
                    rule = d.args[0].value if d.args and isinstance(d.args[0], ast.Constant) else ast.unparse(d.args[0])
                    out.append((n.name, rule, decos))
    return out


SENDING = ('/send/', '/json_to_bin', '/adj-rib-')


def auth_lemma(prog):
    """T3 gives: `@auth.login_required` answers 401 and does not call the view unless get_password(user) equals the
    supplied password.  Obligation per route under /peer/: login_required is the decorator directly inside route
    (nothing of the view stack runs before it), and every sending / table view is behind the establishment gate."""
    out = []
    table = route_table(prog.repo)
    out.append(('routes-found', [], z3.BoolVal(len([t for t in table if t[1].startswith('/peer/')]) >= 1)))
    for (fn, rule, decos) in table:
        if not rule.startswith('/peer/'):
            continue
        i = [k for k, d in enumerate(decos) if d.startswith('blueprint.route')][0]
        ok = len(decos) > i + 1 and decos[i + 1] == 'auth.login_required' and i == 0
        out.append(('auth/%s' % fn, [], z3.BoolVal(ok)))
        if any(s in rule for s in SENDING):
            gated = 'api_utils.makesure_peer_establish' in decos and decos.index('api_utils.makesure_peer_establish') > decos.index('auth.login_required')
            out.append(('gate/%s' % fn, [], z3.BoolVal(gated)))
    return out


# ---------------------------------------------------------------- units
def conf_for_rest(it, S):
    conf = it.prog.models.conf
    conf.f['rest'] = Obj('CONFGROUP', {'username': 'admin', 'password': 'secret', 'bind_host': '0.0.0.0', 'bind_port': 8801})
    conf.f['keep_alive'] = Obj('CONFGROUP', {'last_time': 0})
    conf.f['bgp'].f['running_config']['factory'] = S.peering
    S.fsm.f['uptime'] = SNum(z3.Real('uptime'))


def json_data(v):
    return v.f['data'] if isinstance(v, Obj) and v.clsname == 'JsonResponse' else v


def units(prog):
    from .codec_units import CodecUnit
    us = []

    # get_pw(username) == password  iff  username == CONF.rest.username   (T3: HTTPBasicAuth compares it with the supplied one)
    def pw_args(it):
        conf_for_rest(it, Session(it, with_protocol=False))
        k = it.p.choose(3, 'user')
        return [['admin', 'Admin', ''][k]]

    def pw_expect(it, username):
        return 'ret', ('secret' if username == 'admin' else None)
    us.append(CodecUnit('v1.get_pw', V1 + 'get_pw', pw_args, pw_expect, props=(ID,)))

    # ---- session-kind units on the views (symbolic session state)
    def view_unit(name, qual, request_json, spec_fn, args_kw=None, extra_setup=None, light=False):
        def build(it):
            S = Session(it, with_protocol=True)
            conf_for_rest(it, S)
            js = request_json(it, S)
            it.prog.models.flask_request.f['json'] = js
            it.prog.models.flask_request.f['args'] = {}
            if extra_setup:
                extra_setup(it, S)
            it._c16 = {'S': S, 'json': js}
            return [S.fsm, S.peering, S.P, S.ghost], [], dict(args_kw or {'peer_ip': '10.0.0.2'}), S

        def spec(c, *a, **k):
            s = Sim(c)
            try:
                s.ret = spec_fn(s, c.it._c16['S'], c.it._c16['json'])
            except SimExc as e:
                s.exc = (e.cls, e.fields)
            sp = s.spec()
            sp.effects = vis(sp.effects)
            sp.effect_filter = vis
            return sp
        u = Unit(name, qual, build, spec, kind='view', props=(ID,), verify_kw={'light': light})
        return u

    def vis(effects):
        return [e for e in effects if e[0] in ('Write', 'LoseConnection', 'ConnectTCP', 'Call')]

    def gate_closed(s, S):
        return Any(lambda got: json_is(got, status=False), 'jsonify(status False)')

    def json_is(got, **want):
        d = json_data(got)
        if not isinstance(d, dict):
            return False
        return all(d.get(k) == v for k, v in want.items())

    # send_update_message: gate + faithful hand-over (+ only the documented LOCAL_PREF default on iBGP)
    def upd_json(it, S):
        shape = it.p.choose(4, 'request-shape')
        attr = {'1': 0, '2': [[2, [65001]]], '3': '10.0.0.1'}
        if shape == 1:
            attr['5'] = SNum(z3.Int('req_local_pref'))
        if shape == 2:
            return {'withdraw': ['1.1.1.0/24']}
        if shape == 3:
            return {'attr': attr}
        return {'attr': attr, 'nlri': ['1.1.1.0/24', '2.2.0.0/16']}

    def upd_spec(s, S, js):
        fsm = S.fsm
        if not s.is_(s.get(fsm, 'state'), ST_ESTABLISHED):
            return gate_closed(s, S)
        attr = {int(k): v for k, v in (js.get('attr') or {}).items()}
        nlri = js.get('nlri') or []
        withdraw = js.get('withdraw') or []
        if attr and 5 not in attr and s.branch(to_term(S.remote_as) == to_term(S.local_as)):
            attr[5] = 100
        # RIB-out / version bookkeeping belongs to C19
        for k in ('adj_rib_out', 'send_version', 'flowspec_send_dict', 'sr_send_dict', 'mpls_vpn_send_dict'):
            s.dont_care(S.P, k)
        for d in (S.P.f['send_version'], S.P.f['adj_rib_out'], S.P.f['adj_rib_out']['ipv4']):
            s.dont_care_all(d)
        if to_bool_term(S.rib) is not None and s.branch(to_bool_term(S.rib)):
            pass
        if (attr and nlri) or withdraw or 14 in attr or 15 in attr:
            msg = {'attr': attr, 'nlri': nlri, 'withdraw': withdraw}
            s.eff('Call', CS.BGP + 'send_update', (msg,))
            ok = TX.p_send_update(s, S.P, msg)
            return Any(lambda got, ok=ok: json_is(got, status=bool(ok)), 'jsonify(status %s)' % ok)
        return Any(lambda got: json_is(got, status=False), 'jsonify(status False)')
    us.append(view_unit('v1.send_update_message', V1 + 'send_update_message', upd_json, upd_spec))

    # send_route_refresh view: gate
    def rr_json(it, S):
        S.caps['remote'] = {'route_refresh': True, 'afi_safi': [(1, 1)]}
        return {'afi': 1, 'safi': 1}

    def rr_spec(s, S, js):
        if not s.is_(s.get(S.fsm, 'state'), ST_ESTABLISHED):
            return gate_closed(s, S)
        s.eff('Call', CS.BGP + 'send_route_refresh', (1, 1, 0))
        ok = TX.p_send_route_refresh(s, S.P, 1, 1, 0)
        return Any(lambda got, ok=ok: json_is(got, status=bool(ok)), 'jsonify(status %s)' % ok)
    u = view_unit('v1.send_route_refresh', V1 + 'send_route_refresh', rr_json, rr_spec)
    us.append(u)

    # send_bin_update view: gate, and exactly the requested octets are written
    def bin_json(it, S):
        return {'binary_data': 'ffffffffffffffffffffffffffffffff001702000000'}

    def bin_spec(s, S, js):
        if not s.is_(s.get(S.fsm, 'state'), ST_ESTABLISHED):
            return gate_closed(s, S)
        import binascii
        octets = binascii.a2b_hex(js['binary_data'])
        s.eff('Call', CS.BGP + 'send_bin_update', (octets,))
        TX.p_send_bin_update(s, S.P, octets)
        return Any(lambda got: json_is(got, status=True), 'jsonify(status True)')
    us.append(view_unit('v1.send_bin_update', V1 + 'send_bin_update', bin_json, bin_spec))

    # _ready_to_send_msg  <=>  Established
    def ready_build(it):
        S = Session(it, with_protocol=True)
        conf_for_rest(it, S)
        it._c16 = {'S': S}
        return [S.fsm, S.peering, S.P], ['10.0.0.2'], {}, S

    def ready_spec(c, peer_ip):
        sp = Spec()
        S = c.it._c16['S']
        sp.ret = bool(c.branch(S.st.t == ST_ESTABLISHED))
        return sp
    us.append(Unit('utils._ready_to_send_msg', UT + '_ready_to_send_msg', ready_build, ready_spec, kind='view', props=(ID,)))
    return us


def run(tier, seed, only=None):
    prog = make_prog()
    # the marked contracts let the specs see WHICH message is handed to the protocol
    for q in (CS.BGP + 'send_update', CS.BGP + 'send_bin_update', CS.BGP + 'send_route_refresh'):
        prog.contracts[q] = Contract(q, prog.contracts[q].spec, mark=True)
    from contracts import protocol_rx as RX
    known = load_known()
    run = Run(ID, tier, seed)
    run.trusted = [T1, T2, T3, T5, T6,
                   'T3-flask: Flask routing dispatches a request to the view registered for its rule and method; '
                   'flask_httpauth.HTTPBasicAuth.login_required answers 401 without calling the view unless get_password(user) '
                   'equals the supplied password (documented behaviour, not verified: Flask is modelled, decorators transparent)']
    run.assumptions = [T1, T2, 'Update.construct enters through an assumed abstract contract (C06/C08 own it); '
                       'RIB-out / version bookkeeping in the update view is not constrained here (C19)']
    for u in units(prog) + [x for x in SU.tx_units((ID,))]:
        if only and u.name not in only:
            continue
        u.props = (ID,)
        u.clause_props = (lambda name: set() if ('dict.' in name and any(k in name for k in SU.STATS)) else {ID})
        run.run_unit(u, prog)
        run.vacuity_check(u)
    if not only:
        run.run_lemma(Lemma('decorator-stacks', lambda: auth_lemma(prog), props=(ID,)))
    run.triage_all(known)
    run.replay_findings()
    return run.finish(known)
