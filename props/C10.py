"""C10 — Hostile peer input is contained: no crash, no hang, no collateral damage"""
from .session_prop import *

ID = 'C10'


def run(tier, seed, only=None):
    from contracts import session as CS
    lemmas = LEMMAS(ID)
    return run_session(ID, tier, seed, only=only, with_decoders=True, select=lambda u: u.name.split('.')[0] == 'BGP' or u.name.endswith('_time_event') or u.name in ('FSM.update_received', 'FSM.keep_alive_received', 'FSM.open_received', 'FSM.notification_received', 'FSM.header_error', 'FSM.open_message_error', 'FSM._error_close'), lemmas=lemmas)


def LEMMAS(pid):
    from . import session_lemmas as SL
    return SL.for_prop(pid)
