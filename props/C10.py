"""C10 — Hostile peer input is contained: no crash, no hang, no collateral damage"""
from .session_prop import *

ID = 'C10'


def run(tier, seed, only=None):
    from contracts import session as CS
    lemmas = LEMMAS(ID)
    return run_session(ID, tier, seed, only=only, select=lambda u: u.name.split('.')[0] == 'BGP' or u.name.endswith('_time_event'), lemmas=lemmas)


def LEMMAS(pid):
    from . import session_lemmas as SL
    return SL.for_prop(pid)
