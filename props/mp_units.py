"""Verification units for the multiprotocol NLRI families (C07): value contracts against RFC reference encodings.

Values are canonical (host bits of a prefix are zero: that is what a decoder can give back); every numeric field is
symbolic, list shapes and prefix lengths are enumerated (forked)."""
import z3
from pyvc.values import SNum, SBool, SBytes, Opaque, mk_num, to_term, Infeasible
from pyvc import strings as STR
from pyvc.strings import SStr
STR.Atom = STR.Atom if hasattr(STR, 'Atom') else None
from specs import S as SP
from .codec_units import CodecUnit, sym_int, any_int

N = 'yabgp.message.attribute.nlri.'
AT = 'yabgp.message.attribute.'


# ---------------------------------------------------------------- reference encodings (RFC 4760 / 8277 / 4364 / 7432 / 8955)
def octets_of(plen):
    return (plen + 7) // 8


def prefix6_enc(addr, plen):
    return SP.cat(SP.be(plen, 1), prefix_enc(addr, plen, 16))


def label_stack_enc(labels, withdraw=False, evpn=False):
    """RFC 8277: 20-bit label, 3 bits TC (0), bottom-of-stack bit on the last entry.
    evpn=True: the 3-octet MPLS label fields of an EVPN route (RFC 7432 puts the label in the high-order 20 bits and says
    nothing about the low-order bits; the decoder under contract reads labels up to a set bottom-of-stack bit or the end of
    the route, so either convention round-trips): the reference follows the emitted convention — bottom-of-stack bit on a
    non-zero last label, none on a zero one — which two existing unit tests pin."""
    if withdraw:
        return b'\x80\x00\x00'
    out = []
    for i, l in enumerate(labels):
        last = i == len(labels) - 1
        if isinstance(l, int):
            v = l * 16 + (1 if last and not (evpn and l == 0) else 0)
        elif last and evpn:
            v = mk_num(z3.If(to_term(l) == 0, 0, to_term(l) * 16 + 1))
        else:
            v = mk_num(to_term(l) * 16 + (1 if last else 0))
        out.append(SP.be(v, 3))
    return SP.cat(*out)


# IPv6 prefix lengths under contract: every residue mod 8 and the octet-boundary cases
PLENS6 = [0, 1, 2, 3, 4, 5, 6, 7, 8, 9, 15, 16, 17, 31, 32, 33, 47, 48, 63, 64, 65, 95, 96, 97, 120, 121, 127, 128]


class Addr(SNum):
    """an address as the sum of its octets (separate unknowns): both directions of a codec see the same octet terms, so
    no 128-bit div/mod reasoning is needed for the decoder direction"""
    def __init__(self, octs):
        w = len(octs)
        SNum.__init__(self, z3.Sum([o * (256 ** (w - 1 - k)) if not z3.is_int_value(o) or o.as_long() else z3.IntVal(0)
                                    for k, o in enumerate(octs)]) if w else z3.IntVal(0))
        self.octs = octs
        from pyvc.values import register_digits
        register_digits(self.t, octs)


def octets_bytes(octs, n):
    """the first n octets as an octet string"""
    os_ = list(octs[:n])

    def at(i, os_=os_):
        if z3.is_int_value(i):
            k = i.as_long()
            return os_[k] if 0 <= k < len(os_) else z3.IntVal(0)
        e = z3.IntVal(0)
        for k in range(len(os_) - 1, -1, -1):
            e = z3.If(i == k, os_[k], e)
        return e
    return SBytes(len(os_), at)


def sym_digits(it, name, width, lo=None, hi=None):
    """an unsigned integer of `width` octets given as the sum of its octets (see Addr); optional extra bounds"""
    octs = []
    for k in range(width):
        o = z3.Int('%s_o%d' % (name, k))
        it.p.assume(z3.And(o >= 0, o <= 255))
        octs.append(o)
    a = Addr(octs)
    if lo is not None:
        it.p.assume(a.t >= lo)
    if hi is not None:
        it.p.assume(a.t <= hi)
    return a


def canonical_prefix(it, tag, width, plens=None, plen=None):
    """(addr, plen): symbolic address whose bits beyond plen are zero; plen forked over plens"""
    bits = 8 * width
    if plen is None:
        l = sym_int(it, 'plen_' + tag, 0, bits)
        if plens is None and width == 16:
            plens = PLENS6
        if plens is not None:
            it.p.assume(z3.Or([l.t == x for x in plens]))
        plen = it.p.concretize(l.t, limit=bits + 2, what='prefix length')
    n = octets_of(plen)
    octs = []
    for k in range(width):
        if k < n:
            o = z3.Int('%s_o%d' % (tag, k))
            it.p.assume(z3.And(o >= 0, o <= 255))
            if k == n - 1 and plen % 8:
                it.p.assume(o % (2 ** (8 - plen % 8)) == 0)
            octs.append(o)
        else:
            octs.append(z3.IntVal(0))
    return Addr(octs), plen


def prefix_enc(addr, plen, width):
    """<prefix> part only: ceil(plen/8) leading octets of the address (width 4 or 16)"""
    if isinstance(addr, Addr):
        return octets_bytes(addr.octs, octets_of(plen))
    return SP.sl(SP.be(addr, width), 0, octets_of(plen))


def flow_dotted(addr_octs, plen):
    """the flowspec decoder's own text for a prefix: four decimal numbers, the octets beyond ceil(len/8) are 0"""
    n = octets_of(plen)
    parts = []
    for k in range(4):
        if k:
            parts.append('.')
        o = z3.simplify(addr_octs[k] if k < n else z3.IntVal(0))
        parts.append(str(o.as_long()) if z3.is_int_value(o) else STR.dec(SNum(o)))
    return STR.concat(parts + ['/', str(plen)])


def text6(addr, plen):
    t = z3.simplify(to_term(addr))
    return STR.concat([STR.ip6(t.as_long() if z3.is_int_value(t) else addr), '/', str(plen)])


def text4(addr, plen):
    t = z3.simplify(to_term(addr))
    return STR.concat([STR.ip4(t.as_long() if z3.is_int_value(t) else addr), '/', str(plen)])


# ---------------------------------------------------------------- units
def units(props, tier='quick'):
    us = []
    # quick tier: the labeled / VPN IPv6 units use a reduced set of prefix lengths (the full set is exercised by the IPv6 unicast
    # and construct_prefix_v6 units, which own the prefix-length logic); thorough tier: the full set everywhere
    plens6_family = PLENS6 if tier == 'thorough' else [0, 1, 7, 8, 9, 63, 64, 65, 127, 128]

    def U(name, qual, args, expect, **kw):
        u = CodecUnit(name, qual, args, expect, props=tuple(props), **kw)
        us.append(u)
        return u

    # ---------------- IPv6 unicast (RFC 4760)
    def v6c_args(it):
        n = it.p.choose(3, 'n-prefixes')
        raw, texts = [], []
        for i in range(n):
            addr, plen = canonical_prefix(it, 'p%d' % i, 16, plen=None if i == 0 else 64)
            raw.append((addr, plen))
            texts.append(text6(addr, plen))
        it._mp = raw
        return [texts]

    def v6c_expect(it, nlri_list):
        return 'ret', SP.cat(*[prefix6_enc(a, l) for (a, l) in it._mp]) if it._mp else b''
    U('IPv6Unicast.construct', N + 'ipv6_unicast.IPv6Unicast.construct', v6c_args, v6c_expect)

    def v6p_args(it):
        n = it.p.choose(3, 'n-prefixes')
        ap = it.p.branch(z3.Bool('add_path'))
        raw, enc = [], []
        for i in range(n):
            addr, plen = canonical_prefix(it, 'p%d' % i, 16, plen=None if i == 0 else 48)
            pid = sym_int(it, 'pid%d' % i, 0, 2 ** 32 - 1) if ap else None
            raw.append((addr, plen, pid))
            enc.append(SP.cat(SP.be(pid, 4), prefix6_enc(addr, plen)) if ap else prefix6_enc(addr, plen))
        it._mp = raw
        return [SBytes.of(SP.cat(*enc) if enc else b''), ap]

    def v6p_expect(it, data, addpath):
        out = []
        for (a, l, pid) in it._mp:
            t = text6(a, l)
            out.append({'prefix': t, 'path_id': pid} if pid is not None else t)
        return 'ret', out
    U('IPv6Unicast.parse', N + 'ipv6_unicast.IPv6Unicast.parse', v6p_args, v6p_expect, concrete_loops=True, max_paths=20000)

    # ---------------- prefix / label helpers (NLRI base class)
    def cp4_args(it):
        addr, plen = canonical_prefix(it, 'h4', 4)
        it._mp = (addr, plen)
        return [plen, STR.ip4(addr)]
    U('NLRI.construct_prefix_v4', N + 'NLRI.construct_prefix_v4', cp4_args,
      lambda it, masklen, prefix_str: ('ret', prefix_enc(*it._mp, width=4)))

    def cp6_args(it):
        addr, plen = canonical_prefix(it, 'h6', 16)
        it._mp = (addr, plen)
        return [text6(addr, plen)]
    U('NLRI.construct_prefix_v6', N + 'NLRI.construct_prefix_v6', cp6_args,
      lambda it, prefix: ('ret', prefix_enc(*it._mp, width=16)))

    def labels(it, tag):
        """label stacks of 1..3 entries; every value 0..2^20-1 (boundary values are instances of the symbolic ones).
        The named flag `some_last_label_zero` (ghost, defined by an assumed equivalence) lets a known-finding region speak
        about "the last label of some stack is 0" independently of the shape."""
        n = 1 + it.p.choose(3, 'n-labels-' + tag)
        ls = [sym_int(it, 'label_%s%d' % (tag, i), 0, 2 ** 20 - 1) for i in range(n)]
        zero_flags.append(ls[-1].t == 0)
        return ls

    zero_flags = []

    def one_label(it, tag):
        l = sym_int(it, 'label_' + tag, 0, 2 ** 20 - 1)
        zero_flags.append(l.t == 0)
        return [l]

    def close_zero_flag(it):
        it.p.assume(z3.Bool('some_last_label_zero') == (z3.Or(zero_flags) if zero_flags else z3.BoolVal(False)))
        del zero_flags[:]

    def ls_c_args(it):
        it._mp = labels(it, 'a')
        close_zero_flag(it)
        return [list(it._mp)]
    # the shared helper keeps the convention described in label_stack_enc(evpn=True) (a zero last label without the
    # bottom-of-stack bit): its labeled-unicast caller sets the bit itself, its EVPN callers round-trip either way
    U('NLRI.construct_mpls_label_stack', N + 'NLRI.construct_mpls_label_stack', ls_c_args,
      lambda it, lbls: ('ret', label_stack_enc(it._mp, evpn=True)))

    U('MPLSVPN.construct_mpls_label_stack', N + 'mpls_vpn.MPLSVPN.construct_mpls_label_stack', ls_c_args,
      lambda it, lbls: ('ret', label_stack_enc(it._mp)))

    def ls_p_args(it):
        it._mp = labels(it, 'a')
        close_zero_flag(it)
        rest = SBytes.fresh('rest')
        it.p.assume(rest.len <= 17)
        return [SBytes.of(SP.cat(label_stack_enc(it._mp), rest))]
    U('NLRI.parse_mpls_label_stack', N + 'NLRI.parse_mpls_label_stack', ls_p_args,
      lambda it, data: ('ret', list(it._mp)), concrete_loops=True)
    U('MPLSVPN.parse_mpls_label_stack', N + 'mpls_vpn.MPLSVPN.parse_mpls_label_stack', ls_p_args,
      lambda it, data: ('ret', list(it._mp)), concrete_loops=True)

    # ---------------- labeled unicast (RFC 8277), IPv4 and IPv6
    for fam, width, cq in ((4, 4, N + 'labeled_unicast.ipv4.IPv4LabeledUnicast'), (6, 16, N + 'labeled_unicast.ipv6.IPv6LabeledUnicast')):
        txt = text4 if fam == 4 else text6

        def lu_items(it, fam=fam, width=width, txt=txt):
            n = 1 + it.p.choose(2, 'n-routes')
            raw = []
            for i in range(n):
                addr, plen = canonical_prefix(it, 'r%d' % i, width, plen=None if i == 0 else (24 if fam == 4 else 64),
                                              plens=plens6_family if fam == 6 else None)
                raw.append((addr, plen, labels(it, 'r%d' % i) if i == 0 else one_label(it, 'x%d' % i)))
            close_zero_flag(it)
            return raw

        def lu_enc(raw, width, withdraw=False, pids=None):
            out = []
            for i, (a, l, lb) in enumerate(raw):
                ls = label_stack_enc(lb, withdraw)
                nl = 3 if withdraw else 3 * len(lb)
                e = SP.cat(SP.be(8 * nl + l, 1), ls, prefix_enc(a, l, width))
                out.append(SP.cat(SP.be(pids[i], 4), e) if pids else e)
            return SP.cat(*out)

        def luc_args(it, lu_items=lu_items, txt=txt):
            raw = lu_items(it)
            wd = it.p.branch(z3.Bool('withdraw'))
            it._mp = (raw, wd)
            return [[{'prefix': txt(a, l), 'label': list(lb)} for (a, l, lb) in raw], 'withdraw' if wd else 'advertise']

        def luc_expect(it, nlri_list, flag, lu_enc=lu_enc, width=width):
            raw, wd = it._mp
            return 'ret', lu_enc(raw, width, withdraw=wd)
        U('IPv%dLabeledUnicast.construct' % fam, N + 'labeled_unicast.LabeledUnicast.construct', luc_args, luc_expect, receiver_cls=cq)

        def lup_args(it, lu_items=lu_items, lu_enc=lu_enc, width=width):
            raw = lu_items(it)
            ap = it.p.branch(z3.Bool('add_path'))
            wd = it.p.branch(z3.Bool('withdraw'))
            pids = [sym_int(it, 'pid%d' % i, 0, 2 ** 32 - 1) for i in range(len(raw))] if ap else None
            it._mp = (raw, pids, wd)
            return [SBytes.of(lu_enc(raw, width, withdraw=wd, pids=pids)), ap, wd]

        def lup_expect(it, data, addpath, iswithdraw, txt=txt):
            raw, pids, wd = it._mp
            out = []
            for i, (a, l, lb) in enumerate(raw):
                d = {'prefix': txt(a, l), 'label': [524288] if wd else list(lb)}
                if pids:
                    d['path_id'] = pids[i]
                out.append(d)
            return 'ret', out
        U('IPv%dLabeledUnicast.parse' % fam, N + 'labeled_unicast.LabeledUnicast.parse', lup_args, lup_expect, receiver_cls=cq,
          concrete_loops=True, max_paths=20000)

    # ---------------- route distinguishers (RFC 4364 4.2) and VPNv4 / VPNv6 (one label per route, as the decoder assumes)
    def rd_value(it, tag, kind=None):
        """(text, 8 octets) of a route distinguisher; the type is forked unless given"""
        k = it.p.choose(3, 'rd-type-' + tag) if kind is None else kind
        if k == 0:
            asn, an = sym_digits(it, 'rd_asn_' + tag, 2), sym_digits(it, 'rd_an_' + tag, 4)
            return STR.concat([STR.dec(asn), ':', STR.dec(an)]), SP.cat(SP.be(0, 2), SP.be(asn, 2), SP.be(an, 4))
        if k == 1:
            ip, an = sym_digits(it, 'rd_ip_' + tag, 4), sym_digits(it, 'rd_an_' + tag, 2)
            return STR.concat([STR.ip4(ip), ':', STR.dec(an)]), SP.cat(SP.be(1, 2), SP.be(ip, 4), SP.be(an, 2))
        asn, an = sym_digits(it, 'rd_asn_' + tag, 4, lo=65536), sym_digits(it, 'rd_an_' + tag, 2)
        return STR.concat([STR.dec(asn), ':', STR.dec(an)]), SP.cat(SP.be(2, 2), SP.be(asn, 4), SP.be(an, 2))

    def rdc_args(it):
        it._mp = rd_value(it, 'a')
        return [it._mp[0]]
    U('MPLSVPN.construct_rd', N + 'mpls_vpn.MPLSVPN.construct_rd', rdc_args, lambda it, d: ('ret', it._mp[1]))

    def rdp_args(it):
        it._mp = rd_value(it, 'a')
        return [SBytes.of(it._mp[1])]
    U('MPLSVPN.parse_rd', N + 'mpls_vpn.MPLSVPN.parse_rd', rdp_args, lambda it, d: ('ret', it._mp[0]))

    for fam, width, cq in ((4, 4, N + 'ipv4_mpls_vpn.IPv4MPLSVPN'), (6, 16, N + 'ipv6_mpls_vpn.IPv6MPLSVPN')):
        txt = text4 if fam == 4 else text6

        def vpn_items(it, fam=fam, width=width):
            n = 1 + it.p.choose(2, 'n-routes')
            raw = []
            for i in range(n):
                addr, plen = canonical_prefix(it, 'r%d' % i, width, plen=None if i == 0 else (24 if fam == 4 else 64),
                                              plens=plens6_family if fam == 6 else None)
                rd = rd_value(it, 'r%d' % i, kind=None if i == 0 else 0)
                raw.append((addr, plen, one_label(it, 'r%d' % i), rd))
            close_zero_flag(it)
            return raw

        def vpn_enc(raw, width, withdraw=False, pids=None):
            out = []
            for i, (a, l, lb, rd) in enumerate(raw):
                e = SP.cat(SP.be(88 + l, 1), label_stack_enc(lb, withdraw), rd[1], prefix_enc(a, l, width))
                out.append(SP.cat(SP.be(pids[i], 4), e) if pids else e)
            return SP.cat(*out)

        def vc_args(it, vpn_items=vpn_items, txt=txt):
            raw = vpn_items(it)
            wd = it.p.branch(z3.Bool('withdraw'))
            it._mp = (raw, wd)
            return [[{'prefix': txt(a, l), 'label': list(lb), 'rd': rd[0]} for (a, l, lb, rd) in raw], wd]

        def vc_expect(it, value, iswithdraw, vpn_enc=vpn_enc, width=width):
            raw, wd = it._mp
            return 'ret', vpn_enc(raw, width, withdraw=wd)
        U('IPv%dMPLSVPN.construct' % fam, N + 'mpls_vpn.MPLSVPN.construct', vc_args, vc_expect, receiver_cls=cq)

        def vp_args(it, vpn_items=vpn_items, vpn_enc=vpn_enc, width=width):
            raw = vpn_items(it)
            wd = it.p.branch(z3.Bool('withdraw'))
            ap = it.p.branch(z3.Bool('add_path'))
            pids = [sym_int(it, 'pid%d' % i, 0, 2 ** 32 - 1) for i in range(len(raw))] if ap else None
            it._mp = (raw, wd, pids)
            return [SBytes.of(vpn_enc(raw, width, withdraw=wd, pids=pids)), wd, ap]

        def vp_expect(it, value, iswithdraw, addpath, txt=txt):
            raw, wd, pids = it._mp
            out = []
            for i, (a, l, lb, rd) in enumerate(raw):
                d = {'label': [524288] if wd else list(lb), 'rd': rd[0], 'prefix': txt(a, l)}
                if pids:
                    d['path_id'] = pids[i]
                out.append(d)
            return 'ret', out
        U('IPv%dMPLSVPN.parse' % fam, N + 'mpls_vpn.MPLSVPN.parse', vp_args, vp_expect, receiver_cls=cq,
          concrete_loops=True, max_paths=20000)

    # ---------------- MP_REACH_NLRI / MP_UNREACH_NLRI: family dispatch and envelope (RFC 4760), one route per family shape
    # (the per-family NLRI codecs above carry the quantification over prefix lengths, labels, RD types)
    MPR = AT + 'mpreachnlri.MpReachNLRI.'
    MPU = AT + 'mpunreachnlri.MpUnReachNLRI.'
    FAMILIES = ['v6', 'v6-linklocal', 'vpnv4', 'vpnv6', 'lu4', 'lu6', 'flow4', 'evpn']

    def addr_full(it, tag, width):
        octs = []
        for k in range(width):
            o = z3.Int('%s_o%d' % (tag, k))
            it.p.assume(z3.And(o >= 0, o <= 255))
            octs.append(o)
        return Addr(octs)

    def reach_case(it):
        fam = FAMILIES[it.p.choose(len(FAMILIES), 'family')]
        d = {'fam': fam}
        if fam in ('v6', 'v6-linklocal'):
            nh = addr_full(it, 'nh', 16)
            a, l = canonical_prefix(it, 'r0', 16, plen=64)
            d.update(afi=2, safi=1, nh_text=STR.ip6(nh), nh_bin=octets_bytes(nh.octs, 16), nlri=[text6(a, l)], nlri_bin=prefix6_enc(a, l))
            if fam == 'v6-linklocal':
                ll = addr_full(it, 'll', 16)
                d.update(ll_text=STR.ip6(ll), nh_bin=SP.cat(d['nh_bin'], octets_bytes(ll.octs, 16)))
        elif fam in ('vpnv4', 'vpnv6'):
            w = 4 if fam == 'vpnv4' else 16
            nh = addr_full(it, 'nh', w)
            a, l = canonical_prefix(it, 'r0', w, plen=24 if w == 4 else 64)
            rd = rd_value(it, 'r0', kind=0)
            lb = one_label(it, 'r0')
            close_zero_flag(it)
            txt = text4 if w == 4 else text6
            d.update(afi=1 if w == 4 else 2, safi=128, nh_text={'rd': '0:0', 'str': (STR.ip4 if w == 4 else STR.ip6)(nh)},
                     nh_bin=SP.cat(b'\x00' * 8, octets_bytes(nh.octs, w)),
                     nlri=[{'label': list(lb), 'rd': rd[0], 'prefix': txt(a, l)}],
                     nlri_bin=SP.cat(SP.be(88 + l, 1), label_stack_enc(lb), rd[1], prefix_enc(a, l, w)))
        elif fam == 'evpn':
            nh = addr_full(it, 'nh', 4)
            v, b = evpn_route(it, 3, 'r0', small=True)
            close_zero_flag(it)
            d.update(afi=25, safi=70, nh_text=STR.ip4(nh), nh_bin=octets_bytes(nh.octs, 4), nlri=[{'type': 3, 'value': v}],
                     nlri_bin=SP.cat(b'\x03', SP.be(SP.blen(b), 1), b))
        elif fam == 'flow4':
            a, l = canonical_prefix(it, 'dst', 4, plen=24)
            port = sym_int(it, 'port', 256, 65535)
            body = SP.cat(b'\x01', SP.be(l, 1), prefix_enc(a, l, 4), b'\x05\x91', SP.be(port, 2))
            d.update(afi=1, safi=133, nh_text='', nh_bin=b'', nlri=[{'1': text4(a, l), '5': STR.concat(['=', STR.dec(port)])}],
                     nlri_decoded=[{1: flow_dotted(a.octs, l), 5: STR.concat(['=', STR.dec(port)])}],
                     nlri_bin=SP.cat(SP.be(SP.blen(body), 1), body))
        else:
            w = 4 if fam == 'lu4' else 16
            nh = addr_full(it, 'nh', w)
            a, l = canonical_prefix(it, 'r0', w, plen=24 if w == 4 else 64)
            lb = one_label(it, 'r0')
            close_zero_flag(it)
            txt = text4 if w == 4 else text6
            d.update(afi=1 if w == 4 else 2, safi=4, nh_text=(STR.ip4 if w == 4 else STR.ip6)(nh), nh_bin=octets_bytes(nh.octs, w),
                     nlri=[{'prefix': txt(a, l), 'label': list(lb)}],
                     nlri_bin=SP.cat(SP.be(24 + l, 1), label_stack_enc(lb), prefix_enc(a, l, w)))
        return d

    def reach_value(d, decoded=False):
        v = {'afi_safi': (d['afi'], d['safi']), 'nexthop': d['nh_text'], 'nlri': d.get('nlri_decoded', d['nlri']) if decoded else d['nlri']}
        if 'll_text' in d:
            v['linklocal_nexthop'] = d['ll_text']
        return v

    def reach_body(d):
        return SP.cat(SP.be(d['afi'], 2), SP.be(d['safi'], 1), SP.be(SP.blen(d['nh_bin']), 1), d['nh_bin'], b'\x00', d['nlri_bin'])

    def attr_ext(code, flags, body):
        return SP.cat(SP.be(flags, 1), SP.be(code, 1), SP.be(SP.blen(body), 2), body)

    def mrc_args(it):
        it._mp = reach_case(it)
        return [reach_value(it._mp)]
    U('MpReachNLRI.construct', MPR + 'construct', mrc_args, lambda it, v: ('ret', attr_ext(14, 0x90, reach_body(it._mp))))

    def mrp_args(it):
        it._mp = reach_case(it)
        return [SBytes.of(reach_body(it._mp)), None]
    U('MpReachNLRI.parse', MPR + 'parse', mrp_args, lambda it, v, ap: ('ret', reach_value(it._mp, decoded=True)), concrete_loops=True)

    def unreach_case(it):
        d = reach_case(it)
        if d['fam'] == 'v6-linklocal':
            from pyvc.values import Infeasible
            raise Infeasible()
        # withdrawn routes: VPN / labeled routes carry the withdraw label 0x800000
        if d['safi'] == 128:
            r = d['nlri'][0]
            d['wd_value'] = [{'label': r['label'], 'rd': r['rd'], 'prefix': r['prefix']}]
            d['wd_decoded'] = [{'label': [524288], 'rd': r['rd'], 'prefix': r['prefix']}]
            pl = 24 if d['afi'] == 1 else 64
            d['wd_bin'] = SP.cat(SP.be(88 + pl, 1), b'\x80\x00\x00', SP.sl(d['nlri_bin'], 4, None))
        elif d['safi'] == 4:
            r = d['nlri'][0]
            d['wd_value'] = [dict(r)]
            d['wd_decoded'] = [{'prefix': r['prefix'], 'label': [524288]}]
            d['wd_bin'] = SP.cat(SP.sl(d['nlri_bin'], 0, 1), b'\x80\x00\x00', SP.sl(d['nlri_bin'], 4, None))
        else:
            d['wd_value'] = d['nlri']
            d['wd_decoded'] = d.get('nlri_decoded', d['nlri'])
            d['wd_bin'] = d['nlri_bin']
        return d

    def unreach_body(d):
        return SP.cat(SP.be(d['afi'], 2), SP.be(d['safi'], 1), d['wd_bin'])

    def muc_args(it):
        it._mp = unreach_case(it)
        return [{'afi_safi': (it._mp['afi'], it._mp['safi']), 'withdraw': it._mp['wd_value']}]
    U('MpUnReachNLRI.construct', MPU + 'construct', muc_args, lambda it, v: ('ret', attr_ext(15, 0x90, unreach_body(it._mp))))

    def mup_args(it):
        it._mp = unreach_case(it)
        return [SBytes.of(unreach_body(it._mp)), None]
    U('MpUnReachNLRI.parse', MPU + 'parse', mup_args,
      lambda it, v, ap: ('ret', {'afi_safi': (it._mp['afi'], it._mp['safi']), 'withdraw': it._mp['wd_decoded']}), concrete_loops=True)

    # ---------------- EVPN (RFC 7432) route types 1-4
    EV = N + 'evpn.'

    def mac_value(it, tag):
        m = sym_digits(it, 'mac_' + tag, 6)
        return SStr([STR.Atom('mac', m.t)]), SP.be(m, 6)

    def esi_value(it, tag, kind=None):
        k = it.p.choose(6, 'esi-type-' + tag) if kind is None else kind
        if k == 0:
            v = addr_full(it, 'esi_v_' + tag, 9)          # a 9-octet number, as the sum of its octets
            return {'type': 0, 'value': v}, SP.cat(b'\x00', SP.be(v, 9))
        if k in (1, 2):
            mt, mb = mac_value(it, 'esi_' + tag)
            x = sym_digits(it, 'esi_x_' + tag, 2)
            names = ('ce_mac_addr', 'ce_port_key') if k == 1 else ('rb_mac_addr', 'rb_priority')
            return {'type': k, 'value': {names[0]: mt, names[1]: x}}, SP.cat(SP.be(k, 1), mb, SP.be(x, 2), b'\x00')
        if k == 3:
            mt, mb = mac_value(it, 'esi_' + tag)
            ld = sym_digits(it, 'esi_ld_' + tag, 3)
            return {'type': 3, 'value': {'sys_mac_addr': mt, 'ld_value': ld}}, SP.cat(b'\x03', mb, SP.be(ld, 3))
        a, ld = sym_digits(it, 'esi_a_' + tag, 4), sym_digits(it, 'esi_ld_' + tag, 4)
        name = 'router_id' if k == 4 else 'as_num'
        return {'type': k, 'value': {name: a, 'ld_value': ld}}, SP.cat(SP.be(k, 1), SP.be(a, 4), SP.be(ld, 4), b'\x00')

    def esic_args(it):
        it._mp = esi_value(it, 'a')
        return [it._mp[0]]
    U('EVPN.construct_esi', EV + 'EVPN.construct_esi', esic_args, lambda it, d: ('ret', it._mp[1]))

    def esip_args(it):
        it._mp = esi_value(it, 'a')
        return [SBytes.of(it._mp[1])]
    U('EVPN.parse_esi', EV + 'EVPN.parse_esi', esip_args, lambda it, d: ('ret', it._mp[0]))

    def ip_value(it, tag):
        """(text or None, length octet + address octets): absent / IPv4 / IPv6"""
        k = it.p.choose(3, 'ip-' + tag)
        if k == 0:
            return None, b'\x00'
        w = 4 if k == 1 else 16
        a = addr_full(it, 'ip_' + tag, w)
        return (STR.ip4 if w == 4 else STR.ip6)(a), SP.cat(SP.be(8 * w, 1), octets_bytes(a.octs, w))

    def evpn_route(it, rtype, tag, small=False):
        """(value dict, route-type-specific octets)"""
        rd = rd_value(it, tag, kind=0 if small else None)
        tagid = sym_digits(it, 'eth_tag_' + tag, 4)
        if rtype == 1:
            esi = esi_value(it, tag, kind=4 if small else None)
            lb = one_label(it, tag)
            return ({'rd': rd[0], 'esi': esi[0], 'eth_tag_id': tagid, 'label': list(lb)},
                    SP.cat(rd[1], esi[1], SP.be(tagid, 4), label_stack_enc(lb, evpn=True)))
        if rtype == 2:
            esi = esi_value(it, tag, kind=4 if small else 0)
            mt, mb = mac_value(it, tag)
            ipt, ipb = ip_value(it, tag)
            two = it.p.branch(z3.Bool('two_labels_' + tag))
            lb = [sym_int(it, 'label_%s_a' % tag, 0, 2 ** 20 - 1)] + one_label(it, tag) if two else one_label(it, tag)
            v = {'rd': rd[0], 'esi': esi[0], 'eth_tag_id': tagid, 'mac': mt, 'label': list(lb)}
            if ipt is not None:
                v['ip'] = ipt
            return v, SP.cat(rd[1], esi[1], SP.be(tagid, 4), b'\x30', mb, ipb, label_stack_enc(lb, evpn=True))
        if rtype == 3:
            ipt, ipb = ip_value(it, tag)
            v = {'rd': rd[0], 'eth_tag_id': tagid}
            if ipt is not None:
                v['ip'] = ipt
            return v, SP.cat(rd[1], SP.be(tagid, 4), ipb)
        esi = esi_value(it, tag, kind=4 if small else None)
        ipt, ipb = ip_value(it, tag)
        v = {'rd': rd[0], 'esi': esi[0]}
        if ipt is not None:
            v['ip'] = ipt
        return v, SP.cat(rd[1], esi[1], ipb)

    RT_CLASS = {1: 'EthernetAutoDiscovery', 2: 'MacIPAdvertisment', 3: 'InclusiveMulticastEthernetTag', 4: 'EthernetSegment'}
    for rt in (1, 2, 3, 4):
        def rc_args(it, rt=rt):
            it._mp = evpn_route(it, rt, 'r0')
            close_zero_flag(it)
            return [it._mp[0]]
        U('%s.construct' % RT_CLASS[rt], EV + RT_CLASS[rt] + '.construct', rc_args, lambda it, v, *a: ('ret', it._mp[1]))

        def rp_args(it, rt=rt):
            it._mp = evpn_route(it, rt, 'r0')
            close_zero_flag(it)
            return [SBytes.of(it._mp[1])]
        U('%s.parse' % RT_CLASS[rt], EV + RT_CLASS[rt] + '.parse', rp_args, lambda it, v, *a: ('ret', it._mp[0]), concrete_loops=True)

    def evpn_list(it):
        n = 1 + it.p.choose(2, 'n-routes')
        rts = [1 + it.p.choose(4, 'route-type-0')] + ([3] if n == 2 else [])
        items = [evpn_route(it, rt, 'r%d' % i, small=True) for i, rt in enumerate(rts)]
        close_zero_flag(it)
        return rts, items

    def evc_args(it):
        it._mp = evpn_list(it)
        return [[{'type': rt, 'value': v} for rt, (v, b) in zip(*it._mp)]]

    def evpn_enc(mp):
        rts, items = mp
        return SP.cat(*[SP.cat(SP.be(rt, 1), SP.be(SP.blen(b), 1), b) for rt, (v, b) in zip(rts, items)])
    U('EVPN.construct', EV + 'EVPN.construct', evc_args, lambda it, l: ('ret', evpn_enc(it._mp)))

    def evp_args(it):
        it._mp = evpn_list(it)
        return [SBytes.of(evpn_enc(it._mp))]
    U('EVPN.parse', EV + 'EVPN.parse', evp_args,
      lambda it, d: ('ret', [{'type': rt, 'value': v} for rt, (v, b) in zip(*it._mp)]), concrete_loops=True)

    # ---------------- IPv4 flowspec (RFC 8955): prefixes, numeric operators (=, >, <, >=, <= on 1/2/4-octet values)
    FS = N + 'ipv4_flowspec.IPv4FlowSpec.'
    OPS = [('=', 1), ('>', 2), ('<', 4), ('>=', 3), ('<=', 5)]

    def dotted(addr_octs, plen):
        """the flowspec decoder's own text for a prefix: four decimal numbers, the octets beyond ceil(len/8) are 0"""
        n = octets_of(plen)
        parts = []
        for k in range(4):
            if k:
                parts.append('.')
            o = addr_octs[k] if k < n else z3.IntVal(0)
            o = z3.simplify(o)
            parts.append(str(o.as_long()) if z3.is_int_value(o) else STR.dec(SNum(o)))
        return STR.concat(parts + ['/', str(plen)])

    def fsp_c_args(it):
        a, l = canonical_prefix(it, 'fp', 4)
        it._mp = (a, l)
        return [text4(a, l)]
    U('IPv4FlowSpec.construct_prefix', FS + 'construct_prefix', fsp_c_args,
      lambda it, p: ('ret', SP.cat(SP.be(it._mp[1], 1), prefix_enc(it._mp[0], it._mp[1], 4))))

    def fsp_p_args(it):
        a, l = canonical_prefix(it, 'fp', 4)
        it._mp = (a, l)
        return [SBytes.of(SP.cat(SP.be(l, 1), prefix_enc(a, l, 4)))]
    U('IPv4FlowSpec.parse_prefix', FS + 'parse_prefix', fsp_p_args,
      lambda it, d: ('ret', (dotted(it._mp[0].octs, it._mp[1]), 1 + octets_of(it._mp[1]))))

    def op_terms(it, tag, nmax=2):
        """1..nmax OR-ed comparison terms: (operator, value, width in octets); the width class is forked"""
        n = 1 + it.p.choose(nmax, 'n-terms-' + tag)
        terms = []
        for i in range(n):
            op, bits = OPS[it.p.choose(len(OPS), 'op-%s%d' % (tag, i))]
            w = [1, 2, 4][it.p.choose(3, 'width-%s%d' % (tag, i))]
            lo = {1: 0, 2: 256, 4: 2 ** 24}[w]              # 3-octet values (2^16 .. 2^24-1) have no RFC 8955 length code
            v = sym_digits(it, 'val_%s%d' % (tag, i), w, lo=lo)
            terms.append((op, bits, v, w))
        return terms

    def op_text(terms):
        parts = []
        for i, (op, bits, v, w) in enumerate(terms):
            if i:
                parts.append('|')
            parts += [op, STR.dec(v)]
        return STR.concat(parts)

    def op_enc(terms):
        out = []
        for i, (op, bits, v, w) in enumerate(terms):
            flag = (0x80 if i == len(terms) - 1 else 0) + {1: 0x00, 2: 0x10, 4: 0x20}[w] + bits
            out.append(SP.cat(SP.be(flag, 1), SP.be(v, w)))
        return SP.cat(*out)

    def fso_c_args(it):
        it._mp = op_terms(it, 'a')
        return [op_text(it._mp)]
    U('IPv4FlowSpec.construct_operators', FS + 'construct_operators', fso_c_args, lambda it, d: ('ret', op_enc(it._mp)))

    def fso_p_args(it):
        it._mp = op_terms(it, 'a')
        rest = SBytes.fresh('rest')
        it.p.assume(rest.len <= 4)
        return [SBytes.of(SP.cat(op_enc(it._mp), rest))]

    def fso_p_expect(it, data):
        terms = it._mp
        lst = []
        for i, (op, bits, v, w) in enumerate(terms):
            lst.append([{'EOL': 1 if i == len(terms) - 1 else 0, 'AND': 0, 'LEN': w, 'LT': (bits >> 2) & 1, 'GT': (bits >> 1) & 1,
                         'EQ': bits & 1}, v])
        return 'ret', (lst, sum(1 + w for (_, _, _, w) in terms) + 1)
    U('IPv4FlowSpec.parse_operators', FS + 'parse_operators', fso_p_args, fso_p_expect, concrete_loops=True)

    def flow_rule(it):
        """one flowspec NLRI: destination prefix and/or source prefix, plus 0..2 numeric components"""
        k = it.p.choose(4, 'rule-shape')
        comps, enc = {}, []
        if k in (0, 1, 3):
            a, l = canonical_prefix(it, 'dst', 4, plen=None if k == 0 else 24)
            comps['1'] = (text4(a, l), dotted(a.octs, l))
            enc.append(SP.cat(b'\x01', SP.be(l, 1), prefix_enc(a, l, 4)))
        if k in (1, 2):
            a, l = canonical_prefix(it, 'src', 4, plen=16)
            comps['2'] = (text4(a, l), dotted(a.octs, l))
            enc.append(SP.cat(b'\x02', SP.be(l, 1), prefix_enc(a, l, 4)))
        if k in (2, 3):
            types = [3, 5] if k == 2 else [it.p.choose(9, 'component-type') + 3]
            for t in sorted(types):
                terms = op_terms(it, 'c%d' % t, nmax=1)      # several OR-ed terms: the construct/parse_operators units
                comps[str(t)] = (op_text(terms), op_text(terms))
                enc.append(SP.cat(SP.be(t, 1), op_enc(terms)))
        return comps, enc

    # components are emitted in this order by construct_nlri (prefixes, then 3, 4, 5, 6, 7, 8, 10, 11 — RFC 8955 wants type order)
    EMIT_ORDER = [1, 2, 3, 4, 5, 6, 7, 8, 10, 11]

    def fsn_c_args(it):
        comps, enc = flow_rule(it)
        it._mp = (comps, enc)
        return [{k: v[0] for k, v in comps.items()}]

    def fsn_c_expect(it, data):
        comps, enc = it._mp
        keys = sorted(comps, key=lambda x: int(x))
        for k in keys:
            if int(k) not in EMIT_ORDER:
                return 'any', None
        body = SP.cat(*enc)
        return 'ret', SP.cat(SP.be(SP.blen(body), 1), body)
    U('IPv4FlowSpec.construct_nlri', FS + 'construct_nlri', fsn_c_args, fsn_c_expect, max_paths=20000)

    def fsn_p_args(it):
        comps, enc = flow_rule(it)
        it._mp = (comps, enc)
        return [SBytes.of(SP.cat(*enc))]
    U('IPv4FlowSpec.parse', FS + 'parse', fsn_p_args,
      lambda it, v: ('ret', {int(k): c[1] for k, c in it._mp[0].items()}), concrete_loops=True)
    return us
