#!/usr/bin/env python3
"""Refresh the "As built" paragraph under each "### Cxx" heading of DESIGN.md from the CLAIMED table of tools_manifest.py."""
import os, re
HERE = os.path.dirname(os.path.dirname(os.path.abspath(__file__)))
src = open(os.path.join(HERE, 'tools_manifest.py')).read()
ns = {'__file__': os.path.join(HERE, 'tools_manifest.py')}
exec(src[:src.index('checks = []')], ns)
p = os.path.join(HERE, 'DESIGN.md')
s = open(p).read()
for pid, c in ns['CLAIMED'].items():
    m = re.search(r'^### %s — .*$' % pid, s, flags=re.M)
    if not m:
        continue
    marker = '\n\n> **As built.** '
    rest = s[m.end():]
    if rest.startswith(marker):
        rest = rest[rest.index('\n\n', len(marker)):]
    s = s[:m.end()] + marker + c['text'] + ' *Limits:* ' + c['note'] + '. (The paragraphs below are the design-round plan.)' + rest
open(p, 'w').write(s)
print('ok')
