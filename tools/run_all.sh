#!/bin/bash
# run every claimed check (quick tier) and print one line per property
cd "$(dirname "$0")/.."
for p in $(python3 -c "import json;print(' '.join(c['property_id'] for c in json.load(open('MANIFEST.json'))['checks']))"); do
  s=$(date +%s); ./check $p > /tmp/runall_$p.txt 2>&1; rc=$?; e=$(date +%s)
  echo "$p exit=$rc $((e-s))s $(grep "^$p:" /tmp/runall_$p.txt | tail -1 | cut -c1-200)"
  grep "^VIOLATION\|^CHECKER" /tmp/runall_$p.txt | head -5
done
