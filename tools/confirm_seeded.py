#!/usr/bin/env python3
"""Confirm seeded mutants: for each <src>/mutants/<n> (patch.diff, demo.py, notes.md) check on a scratch worktree of
/repo HEAD that (a) demo passes clean, (b) patch applies, tests unchanged (221 passed), demo fails, (c) clean again.
Copies confirmed ones to /verif/seeded/<prop>-<n>/ with meta.json."""
import json, os, shutil, subprocess, sys, tempfile

REPO = '/repo'
PY = '/venv/bin/python'


def sh(cmd, cwd, timeout=600):
    p = subprocess.run(cmd, shell=True, cwd=cwd, capture_output=True, text=True, timeout=timeout)
    return p.returncode, (p.stdout + p.stderr)


def main():
    srcs = sys.argv[1:]
    wt = tempfile.mkdtemp(prefix='confirm-wt-', dir='/tmp')
    os.rmdir(wt)
    rc, out = sh('git worktree add -q --detach %s HEAD' % wt, REPO)
    assert rc == 0, out
    head = sh('git rev-parse --short HEAD', REPO)[1].strip()
    try:
        for src in srcs:
            prop = os.path.basename(src.rstrip('/')).replace('wt-', '')
            mdir = os.path.join(src, 'mutants')
            for n in sorted(os.listdir(mdir)):
                d = os.path.join(mdir, n)
                if not os.path.exists(os.path.join(d, 'patch.diff')):
                    continue
                dst_in_wt = os.path.join(wt, 'mutants', n)
                shutil.rmtree(os.path.join(wt, 'mutants'), ignore_errors=True)
                shutil.copytree(d, dst_in_wt)
                res = {'property': prop, 'n': n, 'base': head}
                rc, out = sh('git apply --check mutants/%s/patch.diff' % n, wt)
                res['applies_to_head'] = rc == 0
                if rc != 0:
                    res['apply_error'] = out[-400:]
                    print(json.dumps(res))
                    continue
                rc, out = sh('%s mutants/%s/demo.py' % (PY, n), wt)
                res['demo_clean_rc'] = rc
                sh('git apply mutants/%s/patch.diff' % n, wt)
                rc, out = sh('%s -m pytest -q -p no:cacheprovider --timeout=900 --continue-on-collection-errors 2>&1 | tail -1' % PY, wt)
                res['tests'] = out.strip()
                rc, out = sh('%s mutants/%s/demo.py' % (PY, n), wt)
                res['demo_mutant_rc'] = rc
                res['demo_mutant_tail'] = out.strip()[-300:]
                sh('git checkout -- .', wt)
                ok = res['demo_clean_rc'] == 0 and res['demo_mutant_rc'] != 0 and '221 passed' in res['tests'] and '1 failed' in res['tests']
                res['confirmed'] = ok
                print(json.dumps(res))
                if ok:
                    dst = '/verif/seeded/%s-%s' % (prop, n)
                    shutil.rmtree(dst, ignore_errors=True)
                    shutil.copytree(d, dst)
                    notes = open(os.path.join(d, 'notes.md')).read() if os.path.exists(os.path.join(d, 'notes.md')) else ''
                    meta = {'id': '%s-%s' % (prop, n), 'breaks_property': prop, 'base_commit': head,
                            'needs_to_manifest': notes[:1500],
                            'confirmed_by': 'tools/confirm_seeded.py on a scratch worktree of /repo HEAD: demo passes clean (rc 0); '
                                            'with the patch the test suite still gives "%s" and the demo fails (rc %d)' % (res['tests'], res['demo_mutant_rc']),
                            'source': 'independent sub-agent given only the property text'}
                    json.dump(meta, open(os.path.join(dst, 'meta.json'), 'w'), indent=1)
    finally:
        shutil.rmtree(os.path.join(wt, 'mutants'), ignore_errors=True)
        sh('git worktree remove --force %s' % wt, REPO)


if __name__ == '__main__':
    main()
