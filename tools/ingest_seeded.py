#!/usr/bin/env python3
"""Merge the output of tools/run_seeded.py (log files given as arguments) into seeded/RESULTS.json."""
import json, os, re, sys
HERE = os.path.dirname(os.path.dirname(os.path.abspath(__file__)))
RP = os.path.join(HERE, 'seeded', 'RESULTS.json')
res = {}
if os.path.exists(RP):
    for r in json.load(open(RP)):
        res[(r['mutant'], r['property'])] = r
for path in sys.argv[1:]:
    cur = None
    for line in open(path, errors='replace'):
        m = re.match(r'^(C\d\d-\d)\s+(C\d\d)\s+exit=(\d+)\s+(\d+)s\s+(.*)$', line)
        if m:
            mid, prop, rc, secs, rest = m.groups()
            cur = {'mutant': mid, 'property': prop, 'exit': int(rc), 'seconds': int(secs), 'violations': 0, 'with_input': 0,
                   'obligations': []}
            res[(mid, prop)] = cur
            continue
        if cur is None:
            continue
        t = line.strip()
        if t.startswith('VIOLATION'):
            cur['violations'] += 1
            if 'no-failing-input-found' not in t:
                cur['with_input'] += 1
        elif t.startswith('CHECKER-ERROR'):
            cur['obligations'].append(t[:160])
        elif re.match(r'^\S.* \[.*\]: ', t):
            cur['obligations'].append(t.split(' [', 1)[0] + ': ' + t.split(']: ', 1)[1][:120])
out = []
for (mid, prop), r in sorted(res.items()):
    meta = json.load(open(os.path.join(HERE, 'seeded', mid, 'meta.json')))
    first = meta.get('needs_to_manifest', '').strip().split('\n')[0].lstrip('# ').strip()
    r['title'] = re.sub(r'^C\d\d mutant \d+\s*[-—–]+\s*', '', first)[:140]
    if r['exit'] == 1:
        r['verdict'] = 'caught, input' if r['with_input'] else 'caught'
    elif r['exit'] == 0:
        r['verdict'] = '**missed**'
    else:
        r['verdict'] = 'checker error (exit %d)' % r['exit']
    out.append(r)
json.dump(out, open(RP, 'w'), indent=1)
print(len(out), 'results;', sum(1 for r in out if r['exit'] == 1), 'caught;', [r['mutant'] for r in out if r['exit'] != 1])
