#!/usr/bin/env python3
"""Apply each seeded mutant to /repo, run the named property checks, undo.  Usage: run_seeded.py [ids...] [--props C01,C02]
Prints one line per (mutant, property): exit code and the VIOLATION lines.  /repo is restored with `git checkout -- .`"""
import json, os, subprocess, sys, time

VERIF = os.path.dirname(os.path.dirname(os.path.abspath(__file__)))
REPO = os.environ.get('VERIF_REPO') or os.environ.get('VP_RUN_REPO') or '/repo'
os.environ['VERIF_REPO'] = REPO


def sh(cmd, cwd=VERIF, timeout=3600):
    p = subprocess.run(cmd, shell=True, cwd=cwd, capture_output=True, text=True, timeout=timeout)
    return p.returncode, p.stdout + p.stderr


def main():
    args = [a for a in sys.argv[1:] if not a.startswith('--')]
    props = None
    only = None
    for a in sys.argv[1:]:
        if a.startswith('--props='):
            props = a.split('=', 1)[1].split(',')
        if a.startswith('--only='):
            only = a.split('=', 1)[1]
    ids = args or sorted(os.listdir(os.path.join(VERIF, 'seeded')))
    rc, out = sh('git status --porcelain', REPO)
    assert out.strip() == '', REPO + ' is not clean: ' + out
    results = []
    for mid in ids:
        d = os.path.join(VERIF, 'seeded', mid)
        meta = json.load(open(os.path.join(d, 'meta.json')))
        plist = props or [meta['breaks_property']]
        rc, out = sh('git apply %s' % os.path.join(d, 'patch.diff'), REPO)
        if rc != 0:
            print('%s: patch does not apply: %s' % (mid, out[-200:]))
            continue
        try:
            for p in plist:
                t0 = time.time()
                import shlex
                rc, out = sh('./check %s%s' % (p, (' --only ' + shlex.quote(only)) if only else ''))
                vio = [l for l in out.splitlines() if l.startswith(('VIOLATION', 'CHECKER-ERROR'))]
                summ = [l for l in out.splitlines() if l.startswith(p + ':')]
                print('%s  %s  exit=%d  %.0fs  %s' % (mid, p, rc, time.time() - t0, summ[-1][:160] if summ else out[-300:]))
                for l in vio[:6]:
                    print('      ' + l[:200])
                det = [l for l in out.splitlines() if l.startswith('  ')]
                for l in det[:6]:
                    print('      ' + l[:260])
                results.append({'mutant': mid, 'property': p, 'exit': rc, 'violations': vio[:10]})
                sys.stdout.flush()
        finally:
            sh('git checkout -- .', REPO)
    json.dump(results, open('/tmp/seeded_results.json', 'w'), indent=1)


if __name__ == '__main__':
    main()
