#!/bin/bash
# Full self-test: every seeded change against the check of its property (on $VERIF_REPO, restored afterwards), then every
# check on the unchanged tree, so that the evidence files left behind describe the unchanged tree.
cd "$(dirname "$0")/.."
mkdir -p seeded/logs
python3 tools/run_seeded.py > seeded/logs/run_seeded.log 2>&1
python3 tools/ingest_seeded.py seeded/logs/run_seeded.log
bash tools/run_all.sh > seeded/logs/run_all.log 2>&1
python3 tools/render_design.py
tail -25 seeded/logs/run_all.log
