"""Regenerates MANIFEST.json from the per-property descriptions below (kept next to the checks)."""
import json, os
HERE = os.path.dirname(os.path.abspath(__file__))
props = [json.loads(l) for l in open(os.path.join(HERE, 'properties.jsonl'))]

TECH = ('contract-based deductive verification of the real /repo functions: sidecar contracts (specs as guarded '
        'commands over the pre-state), obligations generated per path by the pyvc symbolic executor from the AST '
        'of the files on disk, discharged by z3 (cvc5 second back end); counter-models replayed on the real code')
CLAIMED = {
    'C01': dict(
        text='Every (state, event) reaction of the session layer is a contract taken from the RFC 4271 8.2.2 profile '
             '(DESIGN.md App. A): BGPTimer, FSM events, send helpers, per-message receive handlers and parse_buffer are '
             'verified function by function for all pre-states satisfying the representation invariant Inv, which every '
             'function re-establishes. Seven rows where yabgp deviates are open known findings (proved outside their regions).',
        note='T1 Twisted environment contract, T2 atomic operator commands, T3 library models, T5 engine rules (cross-checked on '
             'CPython per path), T6 the profile itself; Open.parse / Update.parse enter through assumed abstract contracts owned by C14 / C11',
        ref='5 C01, App. A, App. B'),
    'C03': dict(
        text='Timer clauses of Inv (large hold timer in OpenSent; hold and keepalive timers running with deadline now+H / now+H/3 '
             'when H>0, both stopped when H=0) are proved for every handler that touches the timers, for symbolic configured and '
             'proposed hold times; BGPTimer itself is verified against the DelayedCall model.',
        note='T1 (DelayedCall/callLater semantics), T4 (H/3 exact rational), configured hold time legal (0 or >=3)',
        ref='5 C03'),
}
checks = []
for pid, c in CLAIMED.items():
    checks.append({
        'property_id': pid, 'quick_cmd': './check %s --tier quick' % pid, 'thorough_cmd': './check %s --tier thorough' % pid,
        'evidence_file': 'evidence/%s.json' % pid, 'replay_cmd_template': './check --replay {path}', 'engine': 'pyvc',
        'level_claimed': {'category': 'proof', 'text': c['text'], 'design_ref': 'DESIGN.md section ' + c['ref']},
        'level_note': c['note'], 'technique': TECH})
m = {
    'version': 1,
    'setup_cmd': "python3-vt -c 'import z3' && /venv/bin/python -c 'import netaddr, oslo_config, flask' && mkdir -p evidence/replays",
    'hooks': {'guard': 'YABGP_VERIF',
              'enable': 'none needed: contracts are sidecar files under /verif; /repo is parsed (ast) by the engine and imported with sys.modules stand-ins only for native replay',
              'baseline_off_cmd': 'cd /repo && /venv/bin/python -m pytest -ra -q -p no:cacheprovider --timeout=900 --continue-on-collection-errors',
              'source_commits': [], 'add_only': True},
    'engines': [{'name': 'pyvc', 'path': 'pyvc/', 'serves_properties': sorted(CLAIMED),
                 'kind_free_text': 'home-made contract verifier: symbolic execution of the real /repo AST per function against '
                                   'sidecar contracts, obligations discharged by z3 (cvc5 second back end), native replay under /venv/bin/python'}],
    'checks': checks,
    'notes': 'fix: commits in /repo (see known_findings.jsonl): 392e84f 5c6aba0 af6fcf3 718ac22 a1681d0',
    'not_applicable': [{'property_id': p['id'], 'reason': 'check not built yet (build in progress); see DESIGN.md section 5'}
                       for p in props if p['id'] not in CLAIMED],
}
json.dump(m, open(os.path.join(HERE, 'MANIFEST.json'), 'w'), indent=1)
print('claimed', sorted(CLAIMED))
