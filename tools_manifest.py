"""Regenerates MANIFEST.json from the per-property descriptions below (kept next to the checks)."""
import json, os
HERE = os.path.dirname(os.path.abspath(__file__))
props = [json.loads(l) for l in open(os.path.join(HERE, 'properties.jsonl'))]

TECH = ('contract-based deductive verification of the real /repo functions: sidecar contracts (specs as guarded '
        'commands over the pre-state), obligations generated per path by the pyvc symbolic executor from the AST '
        'of the files on disk, discharged by z3 (cvc5 second back end); counter-models replayed on the real code')
CLAIMED = {
    'C01': dict(
        text='Every (state, event) reaction of the session layer is a contract taken from the RFC 4271 8.2.2 profile '
             '(DESIGN.md App. A): BGPTimer, FSM events, send helpers, per-message receive handlers and parse_buffer are '
             'verified function by function for all pre-states satisfying the representation invariant Inv, which every '
             'function re-establishes. Seven rows where yabgp deviates are open known findings (proved outside their regions).',
        note='T1 Twisted environment contract, T2 atomic operator commands, T3 library models, T5 engine rules (cross-checked on '
             'CPython per path), T6 the profile itself; Open.parse / Update.parse enter through assumed abstract contracts owned by C14 / C11',
        ref='5 C01, App. A, App. B'),
    'C03': dict(
        text='Timer clauses of Inv (large hold timer in OpenSent; hold and keepalive timers running with deadline now+H / now+H/3 '
             'when H>0, both stopped when H=0) are proved for every handler that touches the timers, for symbolic configured and '
             'proposed hold times; BGPTimer itself is verified against the DelayedCall model.',
        note='T1 (DelayedCall/callLater semantics), T4 (H/3 exact rational), configured hold time legal (0 or >=3)',
        ref='5 C03'),
    'C02': dict(
        text='Safety half as invariant clauses proved for every entry point: Recover (unless stopped there is always a progress token: '
             'idle-hold armed or connection closing in Idle; attempt/connect-retry/fresh connection in Connect; live connection with hold '
             'timer in a session) and NoPoison (the hold time offered on a new connection is the configured one). Progress half: rank/time '
             'lemmas over the verified handler postconditions under a cooperative peer.',
        note='T1 (incl. the 30 s connect timeout and eventual connectionLost), cooperative-peer premise for the liveness half, boot: automatic_start is the first event',
        ref='5 C02'),
    'C04': dict(
        text='BGP.parse_buffer is verified against a reference RFC 4271 deframer (FRAME) for every buffer content: incomplete => nothing happens; '
             'header error => Message Header Error NOTIFICATION with the right subcode, close; complete message => exactly that message is '
             'dispatched and exactly its octets consumed. dataReceived: loop invariant + variant (terminates, nothing escapes, nothing processed '
             'after a close). Lemma: FRAME is prefix-stable, from which segmentation independence follows by induction over cut points.',
        note='T1 (no data after loseConnection), T5 (cut-point induction is a meta-argument; base and step facts are machine-checked)',
        ref='5 C04'),
    'C10': dict(
        text='No exception escapes dataReceived / parse_buffer / the timer callbacks (outcome obligations on every path, with callees '
             'raising whatever their contracts allow), dataReceived terminates (variant), every dispatch makes at most one application report, '
             'a malformed UPDATE keeps an Established session up, and Inv (incl. the reconnect token) holds after every input.',
        note='Update.parse / Open.parse enter through assumed abstract contracts (may raise any Exception, never SystemExit); decoder statelessness is C11/C09 business',
        ref='5 C10'),
    'C12': dict(
        text='Ghost counter of outstanding connectTCP attempts; invariant One (attempts + live tracked connection <= 1), connect() precondition '
             'proved at its call sites, NoLeak at buildProtocol, idle-no-attempt. Four places where yabgp cannot abort a pending attempt are open known findings.',
        note='T1; the connector object is never stored by yabgp, so aborting an attempt is impossible: recorded as known findings, not repaired',
        ref='5 C12'),
    'C13': dict(
        text='manual_stop: Cease iff Established, every timer cancelled, connection closed, automatic start disabled, Idle. Invariant Stopped '
             '(no timer, no live connection, no attempt while stopped) preserved by every entry point; manual_start from Idle connects at once and '
             're-enables recovery, and changes nothing while a session is up. Stop with an attempt in flight is an open known finding.',
        note='T1, T2 (REST worker threads treated as atomic events)',
        ref='5 C13'),
    'C18': dict(
        text='Every send/receive function changes the per-type counters by exactly the number of messages of that type it writes / takes from the '
             'stream with at least the minimum length (update obligations on msg_sent_stat / msg_recv_stat of every function that touches the '
             'wire); where the RFC row of C01 is an open finding (second OPEN in OpenConfirm / Established) the clause is stated directly over the '
             'writes observed; a new connection starts with its own zeroed counters (buildProtocol). Three deviations are open known findings.',
        note='T1; Update.construct enters through an assumed abstract contract',
        ref='5 C18'),
    'C11': dict(
        text='AST inventory of every decoder function of yabgp/message with a while loop (36 functions, 41 loops on this tree): for each, the real body '
             'is executed from an arbitrary loop-head state and the variant len(cursor) is proved to decrease strictly on every path through the '
             'body (light mode: unmodelled operations are unknown values that may raise); abstracted callees must receive slices not longer than '
             'the input (strictly shorter for dynamic TLV dispatch), static call graph acyclic, no process exit in decoders; Update.parse with '
             'in-range length fields proved to return its result dict on every path.',
        note='for-loops over finite containers and library calls terminate (assumed); light-mode over-approximation of unmodelled operations; T5',
        ref='5 C11, App. E'),
    'C05': dict(
        text='BGP.send_open is verified against OPEN_SPEC(4, as2(my_asn), configured hold time, bgp_id, CAPS(configured set)): the octets written '
             'are that function of the configuration for every AS number / hold time / identifier (three capability-set shapes); connectionMade '
             'resets the recorded peer capabilities and chooses the identifier once; FSM.connection_made restores the configured timers (NoPoison); '
             '_open_received accepts iff version 4, effective AS = configured remote AS, hold time not 1 or 2, sets H = min(configured, proposed) '
             'and 4-octet mode iff both sides advertised capability 65; Open.construct / Open.parse verified against the RFC encoder.',
        note='T1; capability shapes enumerated (values symbolic); peer OPEN enters _open_received through the abstract decode view (C14 verifies Open.parse)',
        ref='5 C05'),
    'C14': dict(
        text='E/D contracts: Notification/KeepAlive/RouteRefresh construct == RFC spec for all field values (struct.error exactly outside the ranges), '
             'parse == RFC decode for ALL byte strings; Open.construct == reference encoder for six capability-set shapes; Open.parse == reference '
             'decode on 20 capability/packaging scenarios (one per parameter, several per parameter, unknown codes, LLGR, add-path incl. one capability per address family, extended next hop, '
             'no optional parameters) with every field symbolic; spec-level round-trip lemmas.',
        note='T3 library models; OPEN capability shapes are an enumerated set (<= 4 capabilities per message): bounded in shape, unbounded in values',
        ref='5 C14'),
    'C06': dict(
        text='E/D contracts per attribute (ORIGIN, AS_PATH, NEXT_HOP, MED, LOCAL_PREF, ATOMIC_AGGREGATE, AGGREGATOR, COMMUNITIES incl. every '
             'well-known name, ORIGINATOR_ID, CLUSTER_LIST, LARGE COMMUNITIES): construct == RFC reference encoding and raises exactly outside '
             'the value ranges; parse of the reference encoding returns the values; Update.construct == header(withdrawn, attributes, NLRI) for '
             'six message shapes incl. announce+withdraw; Update.parse of reference encodings returns exactly the parts; prefix lists for every '
             'length 0..32; per-iteration step contracts make prefix-list and attribute-stream decoding unbounded in length; encoder step contracts (one iteration appends exactly the element encoding to an ARBITRARY accumulator) and '
             'framing contracts (for ANY accumulated value the tail emits a well-formed TLV, extended length iff > 255 octets, never struct.error) make '
             'AS_PATH / community / cluster-list encoding unbounded in length.',
        note='T3; list shapes enumerated (<= 3 elements; AS_PATH one 130-AS segment), values symbolic; EXTENDED COMMUNITIES are decided under C17; LARGE_COMMUNITIES flag octet is an open known finding',
        ref='5 C06'),
    'C08': dict(
        text='every construct function under contract returns EXACTLY a reference encoding built from structural combinators (header length = size, '
             'attribute length form chosen by size with the extended-length bit agreeing, prefixes ceil(len/8) octets) or raises; flag constants of '
             'the attribute classes equal the RFC category table; framing and encoder step contracts for lists of any length; TunnelEncaps.construct '
             '(SR-TE policy: preference, binding SID, ENLP, priority, name, remote endpoint, segment lists with segment types 1/3/5/6 with and '
             'without SID, weights) against an independent structural walker of the nested TLVs.',
        note='T3; shapes enumerated; PMSI (ingress replication) and the SR-TE policy NLRI with its MP_REACH envelope are under contract; of IPv6 flowspec only the prefix component (length, offset, pattern) — with an open known finding for offsets that are not a multiple of 8; the MP families are under contract in C07',
        ref='5 C08'),
    'C09': dict(
        text='decoders against an independent RFC encoder (specs/attrs.py) with each legal variant: extended-length flag on short attributes, '
             'non-zero trailing prefix bits, attribute order, several AS_PATH segments, AS4_PATH/AS4_AGGREGATOR, 2-/4-octet AS mode, add-path; '
             'listed malformations (ORIGIN > 2, prefix length > 32, bad segment type, wrong fixed length) yield an error sub-code; step contracts '
             'on the real loop bodies of parse_prefix_list and parse_attributes hold for ARBITRARY remaining octets.',
        note='T3; three-valued decoder specs; shapes enumerated, values symbolic; MP families not under contract here',
        ref='5 C09'),
    'C15': dict(
        text='per-iteration step contracts (decoder-while rule) on the real loop bodies: one iteration decodes exactly the first element from its '
             'own octets and leaves exactly the rest (IPv4 prefix lists with/without add-path; path-attribute stream incl. unknown types, result '
             'stored under the type code only) => compositionality by list induction; attribute-order independence checked on permuted reference encodings and, '
             'for the coupled pair LINK_STATE / MP_REACH, by a contract that LINK_STATE is decoded exactly once, from its own octets, with the protocol id of '
             'the BGP-LS NLRI whatever its position; OPEN capabilities on the C14 packagings (one capability split over several TLVs accumulates).',
        note='T5 (list induction); other list kinds on enumerated shapes or termination only (see evidence assumptions)',
        ref='5 C15'),
    'C16': dict(
        text='(a) per /peer/ route of the file on disk: auth.login_required is the decorator directly inside blueprint.route and get_pw returns the '
             'password only for the configured user; (b) _ready_to_send_msg <=> Established, every sending / table view sits behind '
             'makesure_peer_establish, and the update / route-refresh / bin-update views do nothing but answer failure unless Established '
             '(real view bodies, symbolic session state); (c) the update view hands exactly the requested message plus only LOCAL_PREF 100 on '
             'iBGP when absent to BGP.send_update, whose contract writes exactly the constructed octets to the current connection.',
        note='T3-flask (routing, HTTPBasicAuth.login_required => 401 without calling the view), T2; Update.construct through an assumed abstract contract',
        ref='5 C16'),
    'C17': dict(
        text='for 17 extended-community encodings (13 text kinds) with every field symbolic: ExtCommunity.parse(RFC octets) == [text]; the real '
             'update view translates that text to the item ExtCommunity.construct needs; ExtCommunity.construct(item) == RFC octets. Communities '
             '(every well-known name, all a:b) and large communities: construct/parse contracts. String handling runs on structured strings.',
        note='traffic-rate (IEEE float) not covered; 4-octet-AS targets need the peer capability as the view demands; LARGE_COMMUNITIES flag octet is an open known finding',
        ref='5 C17'),
    'C19': dict(
        text='update_rib_in_ipv4 / update_rib_out_ipv4: post-table == APPLY(pre-table, update) and counter delta == number of table changes, for '
             'arbitrary tables over a three-prefix pool, arbitrary attribute values and update lists of up to two entries (repetitions included); '
             'both tables are empty after connectionMade / connectionLost from arbitrary tables; flowspec version bookkeeping (new / unchanged / '
             'changed rule) incl. the remembered attributes. The receive-path tuple/list comparison defect is an open known finding.',
        note='pool-based data-independence argument and induction over the per-prefix loop (T5); radix index opaque; CONF.bgp.rib on',
        ref='5 C19'),
    'C20': dict(
        text='DefaultHandler under contract against a stated file-system / JSON model: write_msg appends exactly one complete record line '
             '{t, seq, type, msg} with seq = the counter, counter + 1, flush + fsync (also when msg cannot be serialised; also for a peer name '
             'that is not lower case); every callback reports exactly one record of its type (keepalive iff configured); rotation keeps the '
             'counter and continues in a new, empty, newest file; recovery (get_last_seq_and_file / init_msg_file) over ten directory states a '
             'crash can leave (symbolic sequence numbers) returns the last complete number, never exits, and never appends to an unterminated tail. '
             'The whole-history reading is a meta-argument over these contracts, cross-checked by a BOUNDED native sweep (real files, crash at '
             'byte offsets of the last write).',
        note='T3-fs (file system and json modelled); composition over histories is bounded-checked, not proved; three defects fixed in /repo (7b54f3f, 458941b)',
        ref='5 C20'),
    'C07': dict(
        text='per family function: encoder == RFC reference encoding and decoder(reference encoding) == value, every numeric field symbolic: '
             'IPv6 unicast (28 prefix lengths covering every residue mod 8 and the octet boundaries, add-path), prefix / label-stack / '
             'route-distinguisher helpers, IPv4/IPv6 labeled unicast (label stacks of 1..3, withdraw form), VPNv4/VPNv6 (RD types 0/1/2, one label), '
             'EVPN ESI types 0..5 and route types 1-4 (MAC/IP presence, one or two labels), IPv4 flowspec (prefixes of every length, '
             '=,>,<,>=,<= on 1/2/4-octet values, components 3..8, 10, 11), and the MP_REACH / MP_UNREACH envelope with and without '
             'link-local next hop for each family. Twelve defects found by these contracts were repaired in /repo.',
        note='shapes (list lengths, prefix-length sets for IPv6, one route per family in the envelope units) enumerated, values symbolic; '
             'EVPN route type 5, IPv6 flowspec, SR-TE and BGP-LS NLRI are outside the property or not under contract; flowspec bitmask components (9, 12) not covered',
        ref='5 C07'),
}
FIX_COMMITS = []
for _l in open(os.path.join(HERE, 'known_findings.jsonl')):
    _l = _l.strip()
    if _l and not _l.startswith('#'):
        _d = json.loads(_l)
        if _d.get('status') == 'fixed' and _d['commit'] not in FIX_COMMITS:
            FIX_COMMITS.append(_d['commit'])
checks = []
for pid, c in CLAIMED.items():
    checks.append({
        'property_id': pid, 'quick_cmd': './check %s --tier quick' % pid, 'thorough_cmd': './check %s --tier thorough' % pid,
        'evidence_file': 'evidence/%s.json' % pid, 'replay_cmd_template': './check --replay {path}', 'engine': 'pyvc',
        'level_claimed': {'category': 'proof', 'text': c['text'], 'design_ref': 'DESIGN.md section ' + c['ref']},
        'level_note': c['note'], 'technique': TECH})
m = {
    'version': 1,
    'setup_cmd': "python3-vt -c 'import z3' && /venv/bin/python -c 'import netaddr, oslo_config, flask' && mkdir -p evidence/replays",
    'hooks': {'guard': 'YABGP_VERIF',
              'enable': 'none needed: contracts are sidecar files under /verif; /repo is parsed (ast) by the engine and imported with sys.modules stand-ins only for native replay',
              'baseline_off_cmd': 'cd /repo && /venv/bin/python -m pytest -ra -q -p no:cacheprovider --timeout=900 --continue-on-collection-errors',
              'source_commits': [], 'add_only': True},
    'engines': [{'name': 'pyvc', 'path': 'pyvc/', 'serves_properties': sorted(CLAIMED),
                 'kind_free_text': 'home-made contract verifier: symbolic execution of the real /repo AST per function against '
                                   'sidecar contracts, obligations discharged by z3 (cvc5 second back end), native replay under /venv/bin/python'}],
    'checks': checks,
    'notes': 'fix: commits in /repo (see known_findings.jsonl): ' + ' '.join(FIX_COMMITS),
    'not_applicable': [{'property_id': p['id'], 'reason': 'check not built yet (build in progress); see DESIGN.md section 5'}
                       for p in props if p['id'] not in CLAIMED],
}
json.dump(m, open(os.path.join(HERE, 'MANIFEST.json'), 'w'), indent=1)
print('claimed', sorted(CLAIMED))
