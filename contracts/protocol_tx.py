"""Contracts of the send side of yabgp.core.protocol.BGP used by the REST layer (C16, C18)."""
import z3
from pyvc.values import SNum, SBool, SBytes, Obj, Opaque, mk_num, mk_bool, to_term, to_bool_term
from pyvc.contracts import Spec, Contract, Sim, ANY, Any
from specs import wire
from .timer import wrap, SimExc
from .session import stat_inc, T, Bt, BGP, visible

UPDATE_CONSTRUCT = 'yabgp.message.update.Update.construct'


def caps(s):
    return s.it.m.conf.f['bgp'].f['running_config']['capability']


def p_update_construct_abs(s, cls, msg_dict, asn4=False, addpath=False):
    """ASSUMED at this layer (C06/C08 own it): Update.construct returns the octets of one UPDATE message,
    or raises for values it cannot encode"""
    if s.c.ora_bool('update-construct-raises'):
        raise SimExc('OpaqueException', {})
    n = s.c.ora_int('update-construct-len', 23, 4096)
    key = 'ora-update-bytes!%d' % s.c.it.p.ghost.setdefault('upd_bytes_idx_' + s.c.mode, 0)
    s.c.it.p.ghost['upd_bytes_idx_' + s.c.mode] += 1
    store = s.c.it.p.ghost.setdefault('upd_bytes', {})
    if key not in store:
        b = SBytes.fresh('updmsg')
        s.c.it.p.assume(b.len == n.t)
        s.c.it.p.assume(z3.And([b.at(i) == 255 for i in range(16)] + [b.at(18) == 2, b.be_int(16, 2) == b.len]))
        store[key] = b
    return store[key]


def p_write_tcp_thread(s, P, msg):
    s.eff('Write', s.get(P, 'transport'), msg)


def p_send_update(s, P, msg):
    """C16/C18: a send reported successful has put exactly the constructed UPDATE on the wire and counted it once;
    a failed construction writes nothing and counts nothing"""
    try:
        octets = p_update_construct_abs(s, None, msg, s.get(P, 'fourbytesas'), s.get(P, 'add_path_ipv4_send'))
    except SimExc:
        return False
    s.eff('Write', s.get(P, 'transport'), octets)
    stat_inc(s, P, 'msg_sent_stat', 'Updates')
    return True


def p_send_bin_update(s, P, msg):
    """raw octets supplied by the operator; C18: what is written is counted by its type"""
    s.c.requires(z3.BoolVal(isinstance(msg, (bytes, SBytes))), 'octets')
    s.eff('Write', s.get(P, 'transport'), msg)
    m = SBytes.of(msg)
    if s.branch(z3.And(m.len >= 23, m.at(18) == 2)):
        stat_inc(s, P, 'msg_sent_stat', 'Updates')
    return True


def p_send_route_refresh(s, P, afi, safi, res=0):
    remote = caps(s)['remote']
    if 'cisco_route_refresh' in remote:
        t = wire.T_CISCO_ROUTE_REFRESH
    elif 'route_refresh' in remote:
        t = wire.T_ROUTE_REFRESH
    else:
        return False
    s.c.requires(z3.BoolVal('afi_safi' in remote), 'remote capability set carries its address families')
    fams = remote['afi_safi']
    ok = s.it.m.contains(s.it, fams, (afi, safi))
    if not s.c.truth(ok):
        return False
    s.c.requires(z3.And(T(afi) >= 0, T(afi) <= 65535, T(safi) >= 0, T(safi) <= 255, T(res) >= 0, T(res) <= 255), 'field ranges')
    s.eff('Write', s.get(P, 'transport'), wire.route_refresh(afi, res, safi, t))
    stat_inc(s, P, 'msg_sent_stat', 'RouteRefresh')
    return True


def _vis(spec):
    def spec2(c, *a):
        sp = spec(c, *a)
        sp.effects = visible(sp.effects)
        sp.effect_filter = visible
        return sp
    return spec2


TX_SPECS = {
    BGP + 'write_tcp_thread': _vis(wrap(p_write_tcp_thread)),
    BGP + 'send_update': _vis(wrap(p_send_update)),
    BGP + 'send_bin_update': _vis(wrap(p_send_bin_update)),
    BGP + 'send_route_refresh': _vis(wrap(p_send_route_refresh)),
}
ASSUMED = {UPDATE_CONSTRUCT: wrap(p_update_construct_abs)}
