"""Contracts of the session layer (yabgp/core/{fsm,protocol,factory}.py).

Helpers (closeConnection, send_*, _close_connection, _error_close) are specified from the code and the
property that owns them (C18 for the counters); the FSM events are specified from the RFC 4271 section 8.2.2
profile (DESIGN.md Appendix A) — where yabgp disagrees, the obligation fails and is triaged, the profile
is not bent.
"""
import z3
from pyvc.values import SNum, SBool, SBytes, Obj, Opaque, mk_num, mk_bool, to_term, to_bool_term
from pyvc.contracts import Spec, Contract, verify, Sim, ANY, Any
from pyvc.session import (Session, ST_IDLE, ST_CONNECT, ST_ACTIVE, ST_OPENSENT, ST_OPENCONFIRM, ST_ESTABLISHED,
                          TIMERS, TSHORT, STAT_KEYS)
from specs import wire
from .timer import t_cancel, t_reset, t_active, wrap, SimExc, now

FSM = 'yabgp.core.fsm.FSM.'
BGP = 'yabgp.core.protocol.BGP.'
PEERING = 'yabgp.core.factory.BGPPeering.'
LARGE_HOLD = 240          # RFC 4271 section 8.2.2: "a HoldTimer value of 4 minutes is suggested"
NAME = dict((v, k) for k, v in TSHORT.items())
SESSION_STATES = (ST_OPENSENT, ST_OPENCONFIRM, ST_ESTABLISHED)


def timer(s, fsm, short):
    return s.get(fsm, NAME[short])


def T(v):
    return to_term(v)


def Bt(v):
    return to_bool_term(v)


# ================================================================ invariant
def inv_terms(fsm, read=None, fired=None):
    return _inv_terms(fsm, read, fired, CONF_REF[0])


CONF_REF = [None]     # the CONF heap object of the running program (set by props.common.make_prog)


def _inv_terms(fsm, read, fired, conf):
    """Inv as a list of (name, z3 bool) over the CURRENT heap (or through `read(cont, key)`).
    fired=<timer>: the state at the start of that timer's callback — Inv held with the timer active,
    Twisted marked the DelayedCall as called (so it now reads inactive) and invoked the callback."""
    rd = read or (lambda cont, key: cont.f[key] if isinstance(cont, Obj) else cont[key])
    st = T(rd(fsm, 'state'))
    H = T(rd(fsm, 'hold_time'))
    KA = T(rd(fsm, 'keep_alive_time'))
    tm = {s: rd(fsm, NAME[s]) for s in NAME}
    act = {s: Bt(rd(tm[s], '_active')) for s in tm}
    stat = {s: Bt(rd(tm[s], 'status')) for s in tm}
    extra = []
    if fired is not None:
        extra.append(('fired-%s' % fired, z3.And(z3.Not(act[fired]), stat[fired])))
        act = dict(act)
        act[fired] = z3.BoolVal(True)
    in_session = z3.Or(st == ST_OPENSENT, st == ST_OPENCONFIRM, st == ST_ESTABLISHED)
    P = rd(fsm, 'protocol')
    out = []
    out.append(('state-range', z3.Or([st == k for k in (1, 2, 4, 5, 6)])))
    out.append(('I0-running-implies-not-stopped', z3.Implies(st != ST_IDLE, Bt(rd(fsm, 'allow_automatic_start')))))
    for s in tm:
        out.append(('timer-rep-%s' % s, z3.Implies(act[s], stat[s])))
    out.append(('no-delay-open', z3.Not(act['dopen'])))
    out.append(('delay-open-off', z3.BoolVal(rd(fsm, 'delay_open') is False)))
    if P is None:
        out.append(('I1-session-has-connection', z3.Not(in_session)))
    else:
        tr = rd(P, 'transport') if (not isinstance(P, Obj) or 'transport' in P.f) else None
        if tr is None:       # a protocol instance Twisted has not given a transport yet
            live = z3.BoolVal(False)
        else:
            live = z3.And(T(rd(tr, 'connected')) != 0, z3.Not(Bt(rd(tr, 'disconnecting'))),
                          z3.Not(Bt(rd(P, 'disconnected'))))
        out.append(('I1-session-has-connection', z3.Implies(in_session, live)))
    if P is not None and isinstance(P, Obj) and 'fourbytesas' in P.f:
        out.append(('C05-no-4-octet-mode-before-the-peer-OPEN', z3.Implies(st == ST_OPENSENT, z3.Not(Bt(rd(P, 'fourbytesas'))))))
    out.append(('I2-no-connect-retry-in-session', z3.Implies(in_session, z3.Not(act['cr']))))
    out.append(('I2b-no-idle-hold-in-session', z3.Implies(in_session, z3.Not(act['ihold']))))
    out.append(('I3-opensent-hold', z3.Implies(st == ST_OPENSENT, act['hold'])))
    oc_est = z3.Or(st == ST_OPENCONFIRM, st == ST_ESTABLISHED)
    KAr = KA if KA.sort().kind() == z3.Z3_REAL_SORT else z3.ToReal(KA)
    out.append(('I4a-timers-running', z3.Implies(z3.And(oc_est, H > 0), z3.And(act['hold'], act['ka']))))
    out.append(('I4c-keepalive-interval', z3.Implies(oc_est, KAr * 3 == z3.ToReal(H))))
    out.append(('I4b-no-timers-when-hold-time-zero',
                z3.Implies(z3.And(oc_est, H == 0), z3.And(z3.Not(act['hold']), z3.Not(act['ka'])))))
    out.append(('hold-time-range', z3.And(H >= 0, H <= 65535)))
    out.append(('I4d-negotiated-hold-time-legal', z3.Implies(oc_est, z3.Or(H == 0, H >= 3))))
    # ---- ghost-state clauses (C12 / C13 / C02 safety halves)
    peering = rd(fsm, 'bgp_peering')
    g = rd(peering, '_ghost') if (isinstance(peering, Obj) and '_ghost' in peering.f) else None
    if g is not None:
        npend = T(rd(g, 'n_pending'))
        allow = Bt(rd(fsm, 'allow_automatic_start'))
        if P is None or (isinstance(P, Obj) and 'transport' not in P.f):
            live_t = z3.BoolVal(False)
            closing = z3.BoolVal(False)
        else:
            trr = rd(P, 'transport')
            live_t = z3.And(T(rd(trr, 'connected')) != 0, z3.Not(Bt(rd(trr, 'disconnecting'))), z3.Not(Bt(rd(P, 'disconnected'))))
            closing = z3.And(T(rd(trr, 'connected')) != 0, Bt(rd(trr, 'disconnecting')))
        out.append(('ghost-range', npend >= 0))
        out.append(('C12-One-connection-or-attempt', npend + z3.If(live_t, 1, 0) <= 1))
        out.append(('C13-Stopped-no-attempt', z3.Implies(z3.Not(allow), npend == 0)))
        out.append(('C13-Stopped-no-timers', z3.Implies(z3.Not(allow), z3.Not(z3.Or([act[x] for x in tm])))))
        out.append(('C13-Stopped-no-connection', z3.Implies(z3.Not(allow), z3.Not(live_t))))
        out.append(('C02-Recover-idle', z3.Implies(z3.And(allow, st == ST_IDLE),
                                                   z3.Or(act['ihold'], closing, npend >= 1) if fired != 'ihold' else z3.BoolVal(True))))
        fresh = z3.BoolVal(isinstance(P, Obj) and 'transport' not in P.f)     # connectionMade follows at once (T1)
        out.append(('C02-Recover-connect', z3.Implies(st == ST_CONNECT, z3.Or(npend >= 1, act['cr'], live_t, fresh))))
        out.append(('I5-idle-no-live-connection', z3.Implies(st == ST_IDLE, z3.Not(live_t))))
        out.append(('C12-idle-no-attempt', z3.Implies(st == ST_IDLE, npend == 0)))
        out.append(('C02-Recover-session', z3.Implies(in_session, z3.And(live_t, z3.Or(act['hold'], z3.And(oc_est, H == 0))))))
    if conf is not None:
        out.append(('NoPoison-offered-hold-time-is-configured',
                    z3.Implies(st == ST_OPENSENT, H == T(conf.f['time'].f['hold_time']))))
    return out + extra


TIMING_CLAUSES = ('I3-opensent-hold', 'I4a-timers-running', 'I4c-keepalive-interval',
                  'I4b-no-timers-when-hold-time-zero', 'I4d-negotiated-hold-time-legal',
                  'NoPoison-offered-hold-time-is-configured', 'C05-no-4-octet-mode-before-the-peer-OPEN')


def Inv(fsm, read=None, fired=None, structural_only=False, skip=()):
    return z3.And([t for n, t in inv_terms(fsm, read, fired)
                   if not (structural_only and n in TIMING_CLAUSES) and n not in skip])


def require_inv(s, fsm, fired=None, structural_only=False, skip=()):
    """Inv as a precondition, clause by clause (so that a failing call-site obligation names the clause)"""
    for n, t in inv_terms(fsm, None, fired):
        if (structural_only and n in TIMING_CLAUSES) or n in skip:
            continue
        s.c.requires(t, 'Inv/' + n)


def ensure_inv(s, fsm):
    for name, _ in inv_terms(fsm):
        s.post.append(('Inv/' + name, (lambda n=name: dict(inv_terms(fsm))[n])))


# ================================================================ helpers: protocol side
def p_closeConnection(s, P):
    tr = s.get(P, 'transport')
    if s.branch(T(s.get(tr, 'connected')) != 0):
        s.eff('LoseConnection', tr)
        s.set(tr, 'disconnecting', True)
        s.set(P, 'disconnected', True)


def stat_inc(s, P, which, key):
    d = s.get(P, which)
    s.set(d, key, s.add(s.get(d, key), 1))


def data_len(data):
    return z3.IntVal(len(data)) if isinstance(data, (bytes, bytearray)) else data.len


def p_send_notification(s, P, error, sub_error, data=b''):
    s.c.requires(z3.And(T(error) >= 0, T(error) <= 255, T(sub_error) >= 0, T(sub_error) <= 255), 'code/subcode octets')
    stat_inc(s, P, 'msg_sent_stat', 'Notifications')               # C18: one message, one count
    if isinstance(data, Any):
        s.eff('Write', s.get(P, 'transport'), wire.notification_any_data(error, sub_error))
        return
    s.c.requires(data_len(data) + 21 <= wire.MAX_LEN, 'NOTIFICATION fits in a BGP message')
    s.eff('Write', s.get(P, 'transport'), wire.notification(error, sub_error, data))


def p_send_keepalive(s, P):
    stat_inc(s, P, 'msg_sent_stat', 'Keepalives')
    s.eff('Write', s.get(P, 'transport'), wire.keepalive())


# ================================================================ helpers: FSM side
def p_close_connection(s, fsm):
    P = s.get(fsm, 'protocol')
    if P is not None:
        p_closeConnection(s, P)
        s.set(fsm, 'connect_retry_counter', 0)


def p_error_close(s, fsm):
    for t in ('cr', 'dopen', 'hold', 'ka'):
        t_cancel(s, timer(s, fsm, t))
    t_reset(s, timer(s, fsm, 'ihold'), s.get(fsm, 'idle_hold_time'))
    p_close_connection(s, fsm)
    s.set(fsm, 'connect_retry_counter', s.add(s.get(fsm, 'connect_retry_counter'), 1))
    set_state(s, fsm, ST_IDLE)


def set_state(s, fsm, new):
    """FSM.__setattr__('state', v): entering Established reports on_established once"""
    old = s.get(fsm, 'state')
    if new == ST_ESTABLISHED and not s.is_(old, ST_ESTABLISHED):
        s.set(fsm, 'uptime', ANY)
        s.dont_care(fsm, 'uptime')
        peering = s.get(fsm, 'bgp_peering')
        s.eff('Report', 'on_established', (), {'peer': s.get(peering, 'peer_addr'), 'msg': ANY})
    s.set(fsm, 'state', new)


# ================================================================ the RFC 4271 profile as abstract programs
def profile_dont_cares(s, fsm):
    """fields the profile does not constrain"""
    s.dont_care(fsm, 'connect_retry_counter')
    peering = s.get(fsm, 'bgp_peering')
    if isinstance(peering, Obj):
        s.dont_care(peering, 'status')
    for sh in NAME:
        s.dont_care(timer(s, fsm, sh), 'status')


def released(s, fsm):
    """'releases all BGP resources' when leaving a session: hold/keepalive timers' fate in Idle is not
    observable through the profile -> don't care; the ConnectRetryTimer is stopped as the RFC says."""
    for sh in ('hold', 'ka', 'dopen'):
        t = timer(s, fsm, sh)
        s.dont_care(t, '_active')
        s.dont_care(t, '_deadline')


def drop(s, fsm, damp=True):
    """-> Idle: ConnectRetryTimer stopped, connection closed (if any), idle-hold armed (DampPeerOscillations)"""
    t_cancel(s, timer(s, fsm, 'cr'))
    if damp:
        t_reset(s, timer(s, fsm, 'ihold'), s.get(fsm, 'idle_hold_time'))
    P = s.get(fsm, 'protocol')
    if P is not None:
        p_closeConnection(s, P)
    set_state(s, fsm, ST_IDLE)
    released(s, fsm)


def err_close(s, fsm, code, sub, data=b''):
    """NOTIFICATION(code, sub), then close, then Idle"""
    P = s.get(fsm, 'protocol')
    p_send_notification(s, P, code, sub, data)
    drop(s, fsm)


def visible(effects):
    return [e for e in effects if e[0] in ('Write', 'LoseConnection', 'ConnectTCP', 'Report', 'Exit')]


def state_in(s, fsm, states):
    return s.in_(s.get(fsm, 'state'), states)


def msg_event_requires(s, fsm):
    """T1: a message is delivered only on the live tracked connection, i.e. in OpenSent/OpenConfirm/Established
    (the RFC's rows for messages in Connect are dead in this profile: nothing is connected in Connect, and
    nothing buffered is processed after a close)"""
    s.c.requires(z3.Or([T(s.get(fsm, 'state')) == k for k in SESSION_STATES + (ST_IDLE,)]),
                 'T1: message events occur in a session state (or in Idle, right after this very message closed the session: ignored)')


KF_FUNCTION = {'KF-C01-1': 'yabgp.core.fsm.FSM.keep_alive_received', 'KF-C01-2': 'yabgp.core.fsm.FSM.keep_alive_time_event',
               'KF-C01-3': 'yabgp.core.fsm.FSM.manual_stop', 'KF-C01-4': 'yabgp.core.fsm.FSM.notification_received',
               'KF-C01-5': 'yabgp.core.fsm.FSM.notification_received'}


def known_deviation(s, kf_id, rfc_says):
    """An OPEN known finding with a precisely known deviant behaviour: the row below describes what the code does (so that any
    OTHER behaviour in the same state is still a violation), and the RFC row it departs from is one separately named clause,
    `rfc-row/<id>`, which is refuted on every such path and is the only thing the known-findings entry absorbs.  At call sites
    (contract applied) the deviant row is simply what happens."""
    if s.c.mode == 'verify' and getattr(s.it, 'under_verification', None) == KF_FUNCTION[kf_id]:
        # (only in the unit of the function the finding is about: its callers' units just see the deviant row)
        s.post.append(('rfc-row/%s' % kf_id, lambda: z3.BoolVal(False)))


def prof(fn, fired=None, structural_only=False):
    """FSM event spec = requires Inv; profile row; ensures Inv; only visible effects are compared"""
    if isinstance(fn, str):
        if fn == 'structural':
            return lambda f: prof(f, structural_only=True)
        return lambda f: prof(f, fired=fn)

    def prog(s, fsm, *args):
        require_inv(s, fsm, fired=fired, structural_only=structural_only)
        profile_dont_cares(s, fsm)
        r = fn(s, fsm, *args)
        ensure_inv(s, fsm)
        return r
    prog.__name__ = fn.__name__
    spec = wrap(prog)

    def spec2(c, *a):
        sp = spec(c, *a)
        sp.effects = visible(sp.effects)
        sp.effect_filter = visible
        return sp
    spec2.row = fn
    return spec2


@prof('cr')
def ev_connect_retry(s, fsm):
    if state_in(s, fsm, (ST_CONNECT,)):
        # Event 9 in Connect: drop the connection, restart the timer, initiate a TCP connection, stay
        P = s.get(fsm, 'protocol')
        if P is not None:
            p_closeConnection(s, P)
        t_reset(s, timer(s, fsm, 'cr'), s.get(fsm, 'connect_retry_time'))
        peering = s.get(fsm, 'bgp_peering')
        from . import peering as PE
        PE.p_connect(s, peering)
    elif state_in(s, fsm, SESSION_STATES):
        err_close(s, fsm, wire.E_FSM, ANY_SUB)
    # Idle: ignored


ANY_SUB = 0     # RFC 4271 does not define subcodes for FSM error / hold timer / cease in the base spec: 0


def connect_args(s, peering):
    def within_30s(got):
        # the bound the timing arguments are stated for (C02 progress lemma; the C12 finding KF-C12-1 is about
        # connect-retry times <= this bound): a pending attempt ends at most 30 s after it was started
        if isinstance(got, Any):
            return True          # the callee's contract applied at a call site: same clause on both sides
        if isinstance(got, bool) or got is None:
            return False
        if isinstance(got, (int, float)):
            return got <= 30
        return to_term(got) <= 30
    return {'host': s.get(peering, 'peer_addr'), 'port': 179, 'factory': peering,
            'timeout': Any(within_30s, 'connect timeout of at most 30 s'), 'bindAddress': ANY}


@prof('hold')
def ev_hold_timer(s, fsm):
    if state_in(s, fsm, SESSION_STATES):
        err_close(s, fsm, wire.E_HOLD, 0)
    elif state_in(s, fsm, (ST_CONNECT,)):
        drop(s, fsm)


@prof('ka')
def ev_keepalive_timer(s, fsm):
    if state_in(s, fsm, (ST_OPENCONFIRM, ST_ESTABLISHED)):
        P = s.get(fsm, 'protocol')
        p_send_keepalive(s, P)
        if s.branch(T(s.get(fsm, 'hold_time')) > 0):
            t_reset(s, timer(s, fsm, 'ka'), s.get(fsm, 'keep_alive_time'))
    elif state_in(s, fsm, (ST_OPENSENT,)):
        # RFC row: err_close(s, fsm, wire.E_FSM, ANY_SUB); the code ignores the event
        known_deviation(s, 'KF-C01-2', 'OpenSent, Event 11: NOTIFICATION FSM error, close, Idle')
    elif state_in(s, fsm, (ST_CONNECT,)):
        drop(s, fsm)


@prof('dopen')
def ev_delay_open_timer(s, fsm):
    # DelayOpen is off in this profile: the timer never runs (Inv); rows kept for completeness
    if state_in(s, fsm, SESSION_STATES):
        err_close(s, fsm, wire.E_FSM, ANY_SUB)
    elif state_in(s, fsm, (ST_CONNECT,)):
        drop(s, fsm)


@prof
def ev_connection_made(s, fsm):
    """Events 16/17 (TCP connection succeeds) — DelayOpen off"""
    s.c.requires(z3.Implies(T(s.get(fsm, 'state')) == ST_CONNECT, live_protocol(s, fsm)), 'new connection is live')
    P_ = s.get(fsm, 'protocol')
    if P_ is not None and 'fourbytesas' in P_.f:
        s.c.requires(z3.Implies(T(s.get(fsm, 'state')) == ST_CONNECT, z3.Not(Bt(s.get(P_, 'fourbytesas')))),
                     'T1: the new connection is a freshly constructed protocol instance')
    if state_in(s, fsm, (ST_CONNECT,)):
        t_cancel(s, timer(s, fsm, 'cr'))
        t_cancel(s, timer(s, fsm, 'ihold'))
        # C02/C05 NoPoison: the new session is offered the configured parameters
        conf_time = s.it.m.conf.f['time'].f
        s.set(fsm, 'hold_time', conf_time['hold_time'])
        s.set(fsm, 'keep_alive_time', conf_time['keep_alive_time'])
        send_open_abstract(s, s.get(fsm, 'protocol'))
        t_reset(s, timer(s, fsm, 'hold'), LARGE_HOLD)
        set_state(s, fsm, ST_OPENSENT)
    # other states: ignored


def live_protocol(s, fsm):
    P = s.get(fsm, 'protocol')
    if P is None or not isinstance(P, Obj) or 'transport' not in P.f:
        return z3.BoolVal(False)
    tr = s.get(P, 'transport')
    return z3.And(T(s.get(tr, 'connected')) != 0, z3.Not(Bt(s.get(tr, 'disconnecting'))),
                  z3.Not(Bt(s.get(P, 'disconnected'))))


def send_open_abstract(s, P):
    """BGP.send_open through its contract (contracts/open_send.py fills in the octets under C05)"""
    from . import open_send
    open_send.p_send_open(s, P)


@prof
def ev_connection_failed(s, fsm):
    """Event 18 (TCP connection fails / is lost)"""
    peering_ = s.get(fsm, 'bgp_peering')
    if isinstance(peering_, Obj) and '_ghost' in peering_.f:
        s.c.requires(z3.Implies(T(s.get(fsm, 'state')) == ST_CONNECT, T(s.get(s.get(peering_, '_ghost'), 'n_pending')) == 0),
                     'T1: in Connect the event is delivered for THE outstanding attempt (none remains)')
    if state_in(s, fsm, (ST_CONNECT,)):
        t_cancel(s, timer(s, fsm, 'cr'))
        P = s.get(fsm, 'protocol')
        if P is not None:
            p_closeConnection(s, P)
        set_state(s, fsm, ST_IDLE)
        restart_after_close(s, fsm)
        released(s, fsm)
    elif state_in(s, fsm, SESSION_STATES):
        # active-only profile: back to Idle, idle-hold armed; nothing is written.  (RFC: restart the
        # ConnectRetryTimer and go to Active; a ConnectRetryTimer left running in Idle is unobservable.)
        drop(s, fsm)
        s.dont_care(timer(s, fsm, 'cr'), '_active')
        s.dont_care(timer(s, fsm, 'cr'), '_deadline')
        if s.get(fsm, 'protocol') is not None:
            s.dont_care(s.get(fsm, 'bgp_peering'), 'estab_protocol')


def restart_after_close(s, fsm):
    """BGPPeering.connection_closed: forget the protocol, and unless stopped arm the idle-hold restart"""
    peering = s.get(fsm, 'bgp_peering')
    s.dont_care(peering, 'estab_protocol')
    if s.branch(Bt(s.get(fsm, 'allow_automatic_start'))):
        t_reset(s, timer(s, fsm, 'ihold'), s.get(fsm, 'idle_hold_time'))


@prof('structural')
def ev_open_received(s, fsm):
    """Event 19 (valid OPEN; the caller has just negotiated hold time and keepalive time into the FSM, so the
    timing clauses of Inv are re-established here, not required)"""
    KA = T(s.get(fsm, 'keep_alive_time'))
    Hn = T(s.get(fsm, 'hold_time'))
    s.c.requires(z3.Implies(T(s.get(fsm, 'state')) == ST_OPENSENT,
                            z3.And((KA if KA.sort().kind() == z3.Z3_REAL_SORT else z3.ToReal(KA)) * 3 == z3.ToReal(Hn),
                                   z3.Or(Hn == 0, Hn >= 3), Bt(s.get(timer(s, fsm, 'hold'), '_active')))),
                 'hold time / keepalive time negotiated and legal')
    s.c.requires(z3.Implies(T(s.get(fsm, 'state')) == ST_OPENCONFIRM, Inv(fsm)), 'Inv (OpenConfirm: nothing may have changed)')
    msg_event_requires(s, fsm)
    if state_in(s, fsm, (ST_OPENSENT,)):
        t_cancel(s, timer(s, fsm, 'cr'))
        p_send_keepalive(s, s.get(fsm, 'protocol'))
        if s.branch(T(s.get(fsm, 'hold_time')) > 0):
            t_reset(s, timer(s, fsm, 'ka'), s.get(fsm, 'keep_alive_time'))
            t_reset(s, timer(s, fsm, 'hold'), s.get(fsm, 'hold_time'))
        else:
            t_cancel(s, timer(s, fsm, 'ka'))
            t_cancel(s, timer(s, fsm, 'hold'))
        set_state(s, fsm, ST_OPENCONFIRM)
    elif state_in(s, fsm, (ST_OPENCONFIRM,)):
        pass                                        # no collision possible: ignored
    elif state_in(s, fsm, (ST_ESTABLISHED,)):
        err_close(s, fsm, wire.E_FSM, ANY_SUB)
    elif state_in(s, fsm, (ST_CONNECT,)):
        drop(s, fsm)


@prof('structural')
def ev_header_error(s, fsm, suberror, data=b''):
    s.c.requires(z3.Or([T(s.get(fsm, 'state')) == k for k in SESSION_STATES]), 'message received in a session state')
    err_close(s, fsm, wire.E_HDR, suberror, data)


@prof('structural')
def ev_open_message_error(s, fsm, suberror, data=b''):
    s.c.requires(z3.Or([T(s.get(fsm, 'state')) == k for k in SESSION_STATES]), 'message received in a session state')
    err_close(s, fsm, wire.E_OPEN, suberror, data)


@prof
def ev_notification_received(s, fsm, error, suberror):
    """Events 24 / 25"""
    msg_event_requires(s, fsm)
    version_err = s.branch(z3.And(T(error) == wire.E_OPEN, T(suberror) == wire.OPEN_BAD_VERSION))
    if state_in(s, fsm, (ST_OPENSENT,)):
        if version_err:
            drop(s, fsm, damp=False)
        else:
            # RFC row: err_close(s, fsm, wire.E_FSM, ANY_SUB); the code closes without sending the NOTIFICATION
            known_deviation(s, 'KF-C01-5', 'OpenSent, Event 25: NOTIFICATION FSM error before closing')
            drop(s, fsm)
    elif state_in(s, fsm, (ST_OPENCONFIRM,)):
        drop(s, fsm, damp=not version_err)
    elif state_in(s, fsm, (ST_ESTABLISHED,)):
        if version_err:
            # RFC row: drop(s, fsm); the code ignores a version-error NOTIFICATION in Established
            known_deviation(s, 'KF-C01-4', 'Established, Event 24: release resources, drop the connection, Idle')
        else:
            drop(s, fsm)
    elif state_in(s, fsm, (ST_CONNECT,)):
        drop(s, fsm)


@prof
def ev_keep_alive_received(s, fsm):
    """Event 26"""
    msg_event_requires(s, fsm)
    if state_in(s, fsm, (ST_OPENCONFIRM,)):
        if s.branch(T(s.get(fsm, 'hold_time')) > 0):
            t_reset(s, timer(s, fsm, 'hold'), s.get(fsm, 'hold_time'))
        set_state(s, fsm, ST_ESTABLISHED)
    elif state_in(s, fsm, (ST_ESTABLISHED,)):
        if s.branch(T(s.get(fsm, 'hold_time')) > 0):
            t_reset(s, timer(s, fsm, 'hold'), s.get(fsm, 'hold_time'))
    elif state_in(s, fsm, (ST_OPENSENT,)):
        # RFC row: err_close(s, fsm, wire.E_FSM, ANY_SUB); the code ignores the event
        known_deviation(s, 'KF-C01-1', 'OpenSent, Event 26: NOTIFICATION FSM error, close, Idle')
    elif state_in(s, fsm, (ST_CONNECT,)):
        drop(s, fsm)


@prof
def ev_update_received(s, fsm):
    """Event 27"""
    msg_event_requires(s, fsm)
    if state_in(s, fsm, (ST_ESTABLISHED,)):
        if s.branch(T(s.get(fsm, 'hold_time')) > 0):
            t_reset(s, timer(s, fsm, 'hold'), s.get(fsm, 'hold_time'))
    elif state_in(s, fsm, (ST_OPENSENT, ST_OPENCONFIRM)):
        err_close(s, fsm, wire.E_FSM, ANY_SUB)
    elif state_in(s, fsm, (ST_CONNECT,)):
        drop(s, fsm)


def manual_stop_row(cease_states, rfc_states=()):
    def row(s, fsm):
        if state_in(s, fsm, cease_states):
            P = s.get(fsm, 'protocol')
            p_send_notification(s, P, wire.E_CEASE, ANY_SUB)
        elif rfc_states and state_in(s, fsm, rfc_states):
            # RFC row: Cease from these states too; the code sends it only from Established
            known_deviation(s, 'KF-C01-3', 'ManualStop in OpenSent / OpenConfirm: NOTIFICATION Cease')
        for sh in NAME:
            t_cancel(s, timer(s, fsm, sh))
        P = s.get(fsm, 'protocol')
        if P is not None:
            p_closeConnection(s, P)
        s.set(fsm, 'allow_automatic_start', False)
        set_state(s, fsm, ST_IDLE)
        s.ret = True
        return True
    return row


# Event 2 per RFC 4271 8.2.2: Cease from OpenSent, OpenConfirm and Established (C01)
ev_manual_stop = prof(manual_stop_row((ST_ESTABLISHED,), rfc_states=(ST_OPENSENT, ST_OPENCONFIRM)))
# C13's own statement: "sends Cease if the session was Established"
ev_manual_stop_c13 = prof(manual_stop_row((ST_ESTABLISHED,)))


@prof('ihold')
def ev_idle_hold_timer(s, fsm):
    """Event 13: the idle-hold timer delivers the (damped) AutomaticStart"""
    if state_in(s, fsm, (ST_IDLE,)):
        automatic_start_row(s, fsm)


def automatic_start_row(s, fsm):
    """Idle + AutomaticStart (allowed): ConnectRetryTimer armed, TCP connection initiated, -> Connect"""
    if s.branch(Bt(s.get(fsm, 'allow_automatic_start'))):
        t_reset(s, timer(s, fsm, 'cr'), s.get(fsm, 'connect_retry_time'))
        set_state(s, fsm, ST_CONNECT)
        peering = s.get(fsm, 'bgp_peering')
        s.dont_care(peering, 'status')
        from . import peering as PE
        PE.p_connect(s, peering)


FSM_EVENT_SPECS = {
    'connect_retry_time_event': ev_connect_retry,
    'hold_time_event': ev_hold_timer,
    'keep_alive_time_event': ev_keepalive_timer,
    'idle_hold_time_event': ev_idle_hold_timer,
    'connection_made': ev_connection_made,
    'connection_failed': ev_connection_failed,
    'open_received': ev_open_received,
    'header_error': ev_header_error,
    'open_message_error': ev_open_message_error,
    'notification_received': ev_notification_received,
    'keep_alive_received': ev_keep_alive_received,
    'update_received': ev_update_received,
    'manual_stop': ev_manual_stop,
}

HELPER_SPECS = {
    BGP + 'closeConnection': wrap(p_closeConnection),
    BGP + 'send_notification': wrap(p_send_notification),
    BGP + 'send_keepalive': wrap(p_send_keepalive),
    FSM + '_close_connection': wrap(p_close_connection),
    FSM + '_error_close': wrap(p_error_close),
}


def lemma_delay_open_dead(prog):
    """DelayOpen is off: under Inv the delay-open timer is never active, so the entry precondition of
    delay_open_time_event (only ever called by that timer: Inv with the timer just fired) is unsatisfiable."""
    from pyvc.paths import Path
    from pyvc.values import CUR
    from pyvc.interp import Interp
    out = []
    for wp in (True, False):
        p = Path([], [])
        CUR.path = p
        try:
            it = Interp(prog)
            S = Session(it, with_protocol=wp)
            out.append(('delay_open_time_event-unreachable-%s' % ('P' if wp else 'noP'), list(p.facts),
                        z3.Not(Inv(S.fsm, fired='dopen'))))
        finally:
            CUR.path = None
    return out
