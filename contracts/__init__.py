"""Sidecar contracts for /repo functions (keyed by qualified name); /repo itself is untouched."""
