"""Contracts of the connection / operator entry points: BGP.connectionMade / connectionLost,
BGPPeering.{buildProtocol, clientConnectionFailed, automatic_start, manual_start, manual_stop,
connection_closed, connect_retry, connect}, FSM.{automatic_start, manual_start}.

Ghost state (C12): S.ghost.n_pending = number of outstanding connectTCP attempts — incremented by the
reactor model on every connectTCP, decremented by the environment when it delivers buildProtocol or
clientConnectionFailed.  "At most one connection or attempt":   n_pending + [fsm.protocol is live] <= 1.
"""
import z3
from pyvc.values import SNum, SBool, SBytes, Obj, Opaque, mk_num, mk_bool, to_term, to_bool_term
from pyvc.contracts import Spec, Contract, Sim, ANY, Any
from pyvc.session import (ST_IDLE, ST_CONNECT, ST_ACTIVE, ST_OPENSENT, ST_OPENCONFIRM, ST_ESTABLISHED)
from specs import wire
from .timer import t_cancel, t_reset, wrap, SimExc
from .session import (Inv, ensure_inv, require_inv, profile_dont_cares, visible, err_close, drop, timer, state_in, set_state, T, Bt,
                      SESSION_STATES, BGP, FSM, PEERING, released, connect_args, p_closeConnection, NAME,
                      ev_connection_made, ev_connection_failed, ev_manual_stop, restart_after_close, live_protocol)


def ghost(s, peering):
    return s.get(peering, '_ghost')


def n_pending(s, peering):
    return T(s.get(ghost(s, peering), 'n_pending'))


def live_term(s, fsm):
    return live_protocol(s, fsm)


def one_connection(s, fsm, read_ghost):
    """C12 `One`: attempts outstanding + live tracked connection <= 1"""
    return read_ghost + z3.If(live_term(s, fsm), 1, 0) <= 1


# ---------------------------------------------------------------- connect
def p_connect(s, peering):
    fsm = s.get(peering, 'fsm')
    if state_in(s, fsm, (ST_ESTABLISHED,)):
        return False
    # C12: a new attempt is only started when the previous connection or attempt has ended / been aborted
    s.c.requires(z3.And(n_pending(s, peering) == 0, z3.Not(live_term(s, fsm))),
                 'C12 no other connection or attempt outstanding', own=('connect', 'connect_retry'))
    s.eff('ConnectTCP', connect_args(s, peering))
    g = ghost(s, peering)
    s.set(g, 'n_pending', s.add(s.get(g, 'n_pending'), 1))
    return True


def p_connect_retry(s, peering):
    p_connect(s, peering)
    return None


# ---------------------------------------------------------------- FSM start events (helpers, from the code)
def p_fsm_automatic_start(s, fsm, idle_hold=False):
    if state_in(s, fsm, (ST_IDLE, ST_CONNECT)):
        if s.c.truth(idle_hold):
            t_reset(s, timer(s, fsm, 'ihold'), s.get(fsm, 'idle_hold_time'))
            return False
        if s.branch(Bt(s.get(fsm, 'allow_automatic_start'))):
            s.set(fsm, 'connect_retry_counter', s.add(s.get(fsm, 'connect_retry_counter'), 1))
            t_reset(s, timer(s, fsm, 'cr'), s.get(fsm, 'connect_retry_time'))
            set_state(s, fsm, ST_CONNECT)
            return True
        return False
    return False


def p_fsm_manual_start(s, fsm, idle_hold=False):
    s.set(fsm, 'allow_automatic_start', True)
    if s.c.truth(idle_hold):
        t_reset(s, timer(s, fsm, 'ihold'), s.get(fsm, 'idle_hold_time'))
        return False
    t_reset(s, timer(s, fsm, 'cr'), s.get(fsm, 'connect_retry_time'))
    set_state(s, fsm, ST_CONNECT)
    return True


# ---------------------------------------------------------------- operator / restart entry points
def entry(fn, skip=()):
    """peering-level entry point: requires Inv, ensures Inv, profile don't-cares, visible effects"""
    if isinstance(fn, tuple):
        return lambda f: entry(f, skip=fn)

    def prog(s, peering, *args):
        fsm = s.get(peering, 'fsm')
        require_inv(s, fsm, skip=skip)
        profile_dont_cares(s, fsm)
        s.dont_care(peering, 'status')
        r = fn(s, peering, *args)
        ensure_inv(s, fsm)
        return r
    prog.__name__ = fn.__name__
    spec = wrap(prog)

    def spec2(c, *a):
        sp = spec(c, *a)
        sp.effects = visible(sp.effects)
        sp.effect_filter = visible
        return sp
    spec2.row = fn
    return spec2


@entry(('C02-Recover-idle',))
def p_automatic_start(s, peering, idle_hold=False):
    """AutomaticStart (boot, and idle-hold expiry with idle_hold=False); idle_hold=True arms the damping timer.
    This is the function that establishes the Recover token in Idle, so it does not require it."""
    fsm = s.get(peering, 'fsm')
    if s.c.truth(idle_hold):
        s.c.requires(Bt(s.get(fsm, 'allow_automatic_start')), 'damped restart is only requested for a peering that is not stopped')
    if not state_in(s, fsm, (ST_IDLE,)):
        return None
    if s.c.truth(idle_hold):
        t_reset(s, timer(s, fsm, 'ihold'), s.get(fsm, 'idle_hold_time'))
        return None
    if s.branch(Bt(s.get(fsm, 'allow_automatic_start'))):
        t_reset(s, timer(s, fsm, 'cr'), s.get(fsm, 'connect_retry_time'))
        set_state(s, fsm, ST_CONNECT)
        p_connect(s, peering)
    return None


@entry
def p_manual_start(s, peering, idle_hold=False):
    """C13: from the stopped state (Idle) connect at once and re-enable automatic recovery; a session that
    is up is left alone"""
    fsm = s.get(peering, 'fsm')
    if state_in(s, fsm, (ST_ESTABLISHED,)):
        return 'EST'
    if state_in(s, fsm, (ST_IDLE,)):
        s.set(fsm, 'allow_automatic_start', True)
        if s.c.truth(idle_hold):
            t_reset(s, timer(s, fsm, 'ihold'), s.get(fsm, 'idle_hold_time'))
            return None
        t_reset(s, timer(s, fsm, 'cr'), s.get(fsm, 'connect_retry_time'))
        set_state(s, fsm, ST_CONNECT)
        p_connect(s, peering)
        return True
    return False


@entry
def p_manual_stop(s, peering):
    fsm = s.get(peering, 'fsm')
    return ev_manual_stop.row(s, fsm)


@entry(('C02-Recover-idle', 'state-range'))
def p_connection_closed(s, peering, pro, disconnect=False):
    fsm = s.get(peering, 'fsm')
    # FSM.connection_failed reports the close from the transient Active state it inherited from the
    # passive-capable original; the state is overwritten below when the closed connection is the tracked one
    s.c.requires(z3.Or(z3.Or([T(s.get(fsm, 'state')) == k for k in (1, 2, 4, 5, 6)]),
                       z3.And(T(s.get(fsm, 'state')) == ST_ACTIVE,
                              z3.BoolVal(pro is not None and pro is s.get(peering, 'estab_protocol')))), 'state')
    if pro is not None:
        # callers: connectionLost of a connection we closed, or the FSM after it closed / lost the connection
        tr = s.get(pro, 'transport')
        s.c.requires(z3.Not(z3.And(T(s.get(tr, 'connected')) != 0, z3.Not(Bt(s.get(tr, 'disconnecting'))),
                                   z3.Not(Bt(s.get(pro, 'disconnected'))))), 'the reported connection is closed or closing')
        s.c.requires(z3.Or(T(s.get(fsm, 'state')) == ST_IDLE, n_pending(s, peering) == 0),
                     'C12 no attempt is outstanding while a connection is being reported closed')
    if pro is not None and pro is s.get(peering, 'estab_protocol'):
        s.set(peering, 'estab_protocol', None)
        set_state(s, fsm, ST_IDLE)
    if s.branch(Bt(s.get(fsm, 'allow_automatic_start'))):
        if state_in(s, fsm, (ST_IDLE,)):
            t_reset(s, timer(s, fsm, 'ihold'), s.get(fsm, 'idle_hold_time'))
    return None


@entry
def p_clientConnectionFailed(s, peering, connector, reason):
    """the outstanding attempt failed (refused / timed out): Event 18 in Connect"""
    fsm = s.get(peering, 'fsm')
    # (the environment has consumed the outstanding attempt: ghost n_pending already decremented by the harness)
    s.eff('Report', 'on_connection_failed', ANY, ANY)
    ev_connection_failed.row(s, fsm)
    return None


@entry
def p_buildProtocol(s, peering, addr):
    """the outstanding attempt succeeded: a new protocol instance becomes the tracked connection.
    C12 NoLeak: nothing live is dropped from tracking.  C13: a stopped peering does not come back to life."""
    fsm = s.get(peering, 'fsm')
    # (the environment has consumed the outstanding attempt: ghost n_pending already decremented by the harness)
    s.c.requires(z3.BoolVal(s.get(addr, 'port') == 179), 'T1: we connect to port 179')
    s.c.requires(z3.Not(live_term(s, fsm)), 'C12 NoLeak: the previously tracked connection is not live any more')
    s.c.requires(Bt(s.get(fsm, 'allow_automatic_start')), 'C13: no connection completes for a stopped peering')
    s.set(fsm, 'protocol', ANY)
    s.set(peering, 'estab_protocol', ANY)
    s.dont_care(fsm, 'protocol')
    s.dont_care(peering, 'estab_protocol')
    set_state(s, fsm, ST_CONNECT)

    def fresh_counters():
        # C18: statistics are per connection — the new instance owns zeroed counter tables (not the class's, not the
        # previous connection's)
        newp = fsm.f.get('protocol')
        if isinstance(newp, Any):
            return z3.BoolVal(True)        # applied as a contract: the new instance is unconstrained
        if not isinstance(newp, Obj):
            return z3.BoolVal(False)
        ok = True
        for k in ('msg_sent_stat', 'msg_recv_stat'):
            d = newp.f.get(k)
            ok = ok and isinstance(d, dict) and all((isinstance(v, int) and v == 0) for v in d.values()) and \
                set(d) == {'Opens', 'Notifications', 'Updates', 'Keepalives', 'RouteRefresh'}
        return z3.BoolVal(bool(ok))
    s.post.append(('C18-fresh-counters', fresh_counters))

    def fresh_tables():
        # C19: the version counters and the per-rule bookkeeping tables belong to the connection: a new instance owns
        # empty tables and zeroed counters (not the class's, not the previous connection's)
        newp = fsm.f.get('protocol')
        if isinstance(newp, Any):
            return z3.BoolVal(True)
        if not isinstance(newp, Obj):
            return z3.BoolVal(False)
        ok = True
        for k in ('flowspec_send_dict', 'flowspec_receive_dict', 'sr_send_dict', 'sr_receive_dict', 'mpls_vpn_send_dict',
                  'mpls_vpn_receive_dict'):
            d = newp.f.get(k)
            ok = ok and isinstance(d, dict) and len(d) == 0
        for k in ('send_version', 'receive_version'):
            d = newp.f.get(k)
            ok = ok and isinstance(d, dict) and len(d) > 0 and all((isinstance(v, int) and v == 0) for v in d.values())
        return z3.BoolVal(bool(ok))
    s.post.append(('C19-fresh-tables', fresh_tables))
    return ANY


# ---------------------------------------------------------------- transport-level entry points
def proto_entry(fn):
    def prog(s, P, *args):
        fsm = s.get(P, 'fsm')
        require_inv(s, fsm)
        s.c.requires(z3.BoolVal(s.get(fsm, 'protocol') is P), 'single-connection regime: receiver is the tracked connection')
        profile_dont_cares(s, fsm)
        s.dont_care(s.get(P, 'factory'), 'status')
        # C19: both tables are empty after a connection starts or ends (init_rib)
        fams = s.it.m.conf.f['bgp'].f['afi_safi']
        s.set(P, 'adj_rib_in', {k: {} for k in fams})
        s.set(P, 'adj_rib_out', {k: {} for k in fams})
        r = fn(s, P, *args)
        ensure_inv(s, fsm)
        return r
    prog.__name__ = fn.__name__
    spec = wrap(prog)

    def spec2(c, *a):
        sp = spec(c, *a)
        sp.effects = visible(sp.effects)
        sp.effect_filter = visible
        return sp
    return spec2


@proto_entry
def p_connectionMade(s, P):
    """Events 16/17 right after buildProtocol: OPEN goes out, large hold timer, OpenSent (C01); RIB empty (C19)"""
    fsm = s.get(P, 'fsm')
    peering = s.get(P, 'factory')
    s.c.requires(z3.And(T(s.get(fsm, 'state')) == ST_CONNECT, live_protocol(s, fsm)), 'T1: fresh live connection in Connect')
    s.c.requires(z3.Not(Bt(s.get(P, 'fourbytesas'))), 'T1: connectionMade follows buildProtocol at once: a freshly constructed protocol instance')
    # C05: a stable BGP identifier — chosen once (from the local address of the first connection), never changed
    if s.get(peering, 'bgp_id') is None:
        s.set(peering, 'bgp_id', local_address_identifier(s, P))
    # C05: the peer capabilities recorded in the running configuration are those of THIS connection
    from .open_send import caps
    s.set(caps(s), 'remote', {})
    ev_connection_made.row(s, fsm)
    return None


def local_address_identifier(s, P):
    """the IPv4 address of the local end of the connection as a 32-bit integer (127.0.0.1 for IPv6 / errors)"""
    tr = s.get(P, 'transport')
    host = tr.f.get('_getHost').f['host'] if tr.f.get('_getHost') is not None else '10.0.0.1'
    import ipaddress
    try:
        ip = ipaddress.ip_address(host)
    except ValueError:
        return 0x7f000001
    return int(ip) if ip.version == 4 else 0x7f000001


@proto_entry
def p_connectionLost(s, P, reason):
    """the TCP connection is gone (peer close, or completion of our own close)"""
    fsm = s.get(P, 'fsm')
    peering = s.get(P, 'factory')
    tr = s.get(P, 'transport')
    s.c.requires(T(s.get(tr, 'connected')) == 0, 'T1: connectionLost is delivered with transport.connected == 0')
    s.eff('Report', 'on_connection_lost', ANY, ANY)
    if s.branch(Bt(s.get(P, 'disconnected'))):
        # we closed it ourselves earlier: the FSM is already in Idle; schedule the automatic restart
        s.set(peering, 'estab_protocol', None)
        set_state(s, fsm, ST_IDLE)
        if s.branch(Bt(s.get(fsm, 'allow_automatic_start'))):
            t_reset(s, timer(s, fsm, 'ihold'), s.get(fsm, 'idle_hold_time'))
        return None
    ev_connection_failed.row(s, fsm)
    return None


HELPER_SPECS = {
    PEERING + 'connect': wrap(p_connect),
    PEERING + 'connect_retry': wrap(p_connect_retry),
    FSM + 'automatic_start': wrap(p_fsm_automatic_start),
    FSM + 'manual_start': wrap(p_fsm_manual_start),
}

@entry
def p_manual_stop_c13(s, peering):
    from .session import ev_manual_stop_c13
    fsm = s.get(peering, 'fsm')
    return ev_manual_stop_c13.row(s, fsm)


ENTRY_SPECS = {
    PEERING + 'automatic_start': p_automatic_start,
    PEERING + 'manual_start': p_manual_start,
    PEERING + 'manual_stop': p_manual_stop,
    PEERING + 'connection_closed': p_connection_closed,
    PEERING + 'clientConnectionFailed': p_clientConnectionFailed,
    PEERING + 'buildProtocol': p_buildProtocol,
    BGP + 'connectionMade': p_connectionMade,
    BGP + 'connectionLost': p_connectionLost,
}
