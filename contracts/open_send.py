"""Contract of BGP.send_open and BGP.capability_negotiate (C05): the OPEN written on a new connection is a
function of the configuration only."""
import z3
from pyvc.values import SNum, SBool, SBytes, Obj, Opaque, mk_num, mk_bool, to_term, to_bool_term
from pyvc.contracts import ANY, Any
from specs import wire, open as OS


def conf(s):
    return s.it.m.conf.f


def caps(s):
    return conf(s)['bgp'].f['running_config']['capability']


def p_capability_negotiate(s, P):
    """C05: nothing learned in an earlier session may shrink the configured capability set.  The remote set was
    reset when the connection was made, so there is nothing to negotiate against yet."""
    s.c.requires(z3.BoolVal(not s.get(caps(s), 'remote')), 'C05 the recorded peer capabilities belong to this connection (none yet)')
    return None


def p_send_open(s, P):
    """one OPEN = f(configuration) written to the connection, counted once, reported once"""
    s.c.requires(z3.BoolVal(not s.get(caps(s), 'remote')), 'C05 the recorded peer capabilities belong to this connection (none yet)')
    peering = s.get(P, 'factory')
    fsm = s.get(P, 'fsm')
    my_asn = s.get(peering, 'my_asn')
    hold = s.get(fsm, 'hold_time')
    s.c.requires(to_term(hold) == to_term(conf(s)['time'].f['hold_time']),
                 'C05 NoPoison: the hold time offered is the configured one')
    bgp_id = s.get(peering, 'bgp_id')
    s.c.requires(z3.BoolVal(bgp_id is not None), 'BGP identifier has been chosen')
    s.c.requires(z3.And(to_term(bgp_id) >= 0, to_term(bgp_id) < 2 ** 32, to_term(my_asn) >= 1, to_term(my_asn) < 2 ** 32), 'field ranges')
    local = caps(s)['local']
    big = s.branch(to_term(my_asn) > 65535)
    items = OS.local_cap_items(big, my_asn, local)
    asn2 = OS.AS_TRANS if big else my_asn
    octets = OS.open_msg(4, asn2, hold, bgp_id, [[i] for i in items])
    s.eff('Write', s.get(P, 'transport'), octets)
    d = s.get(P, 'msg_sent_stat')
    s.set(d, 'Opens', s.add(s.get(d, 'Opens'), 1))
    s.eff('Report', 'send_open', ANY, ANY)
    return None
