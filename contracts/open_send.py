"""Contract of BGP.send_open (C05 owns the octets; the session layer uses the summary)."""
import z3
from pyvc.values import SNum, SBool, SBytes, Obj, Opaque, mk_num, mk_bool, to_term, to_bool_term
from pyvc.contracts import ANY, Any


def p_send_open(s, P):
    """one OPEN written to the connection, counted once, reported once to the application"""
    d = s.get(P, 'msg_sent_stat')
    s.set(d, 'Opens', s.add(s.get(d, 'Opens'), 1))
    s.eff('Write', s.get(P, 'transport'), ANY)
    s.eff('Report', 'send_open', ANY, ANY)
    s.dont_care(P, 'add_path_ipv4_send')
