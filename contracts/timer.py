"""Contracts of yabgp.core.timer.BGPTimer over the abstract timer (status, active, deadline).

Representation (verified here against the real bodies on the DelayedCall model of T1):
    active  <=>  delayed_call is not None and not delayed_call.called and not delayed_call.cancelled
    deadline =   delayed_call.time          (meaningful while active)
    invariant    active => status
"""
import z3
from pyvc.values import SNum, SBool, Obj, mk_num, mk_bool, to_term, to_bool_term
from pyvc.contracts import Spec, Contract, verify, Sim
from pyvc.interp import BoundMethod

Q = 'yabgp.core.timer.BGPTimer.'


class SimExc(Exception):
    def __init__(self, cls, fields=None):
        Exception.__init__(self)
        self.cls = cls
        self.fields = fields or {}


def now(s):
    from pyvc.twisted_model import reactor_now
    return SNum(reactor_now(s.it))


def rep_havoc(s, timer):
    """representation fields that the abstract contract does not speak about"""
    if 'delayed_call' in timer.f:
        dc = timer.f['delayed_call']
        s.dont_care(timer, 'delayed_call')
        if isinstance(dc, Obj):
            for k in dc.f:
                s.dont_care(dc, k)


# ---- abstract timer actions (the single source used by every other spec).  They do not fork: the new
#      abstract state is an if-then-else of the old one, so callers' path counts stay small.
def t_cancel(s, t):
    a = to_bool_term(s.get(t, '_active'))
    st = to_bool_term(s.get(t, 'status'))
    s.set(t, 'status', mk_bool(z3.And(st, z3.Not(a))))      # status := False only if the cancel took effect
    s.set(t, '_active', False)


def t_reset(s, t, secs):
    # an inactive timer is started with reactor.callLater, which asserts delay >= 0 (Twisted)
    neg = s.it.m.compare(s.it, 'Lt', secs, 0)
    s.c.requires(z3.Not(to_bool_term(neg)), 'timer delay is not negative')
    s.set(t, 'status', True)
    s.set(t, '_active', True)
    s.set(t, '_deadline', s.add(now(s), secs))


def t_active(s, t):
    s.set(t, 'status', True)
    a = s.get(t, '_active')
    return s.branch(to_bool_term(a))


def wrap(fn):
    """Sim program -> spec function"""
    def spec(c, *args):
        s = Sim(c)
        try:
            s.ret = fn(s, *args)
        except SimExc as e:
            s.exc = (e.cls, e.fields)
        return s.spec()
    spec.__name__ = getattr(fn, '__name__', 'spec')
    return spec


def p_cancel(s, self):
    rep_havoc(s, self)
    t_cancel(s, self)


def p_reset(s, self, seconds_fromnow):
    rep_havoc(s, self)
    t_reset(s, self, seconds_fromnow)


def p_active(s, self):
    rep_havoc(s, self)
    return t_active(s, self)


spec_cancel, spec_reset, spec_active = wrap(p_cancel), wrap(p_reset), wrap(p_active)

CONTRACTS = [
    Contract(Q + 'cancel', spec_cancel),
    Contract(Q + 'reset', spec_reset),
    Contract(Q + 'active', spec_active),
]


# ---------------------------------------------------------------- verification on the concrete representation
def build_concrete(it, nargs):
    p = it.p
    prog = it.prog
    cls = prog.func('yabgp.core.timer.BGPTimer')
    nowt = z3.Real('now')
    p.assume(nowt >= 0)
    p.ghost['reactor_now'] = nowt
    status = SBool(z3.Bool('status'))
    owner = Obj('Owner', tag='owner')
    t = Obj(cls, {'name': 'a timer', 'status': status, 'callable': BoundMethod(cls.lookup('active'), owner)},
            tag='timer')
    if p.branch(z3.Bool('has_dc')):
        dc = Obj('DelayedCall', {'called': SBool(z3.Bool('dc_called')), 'cancelled': SBool(z3.Bool('dc_cancelled')),
                                 'time': SNum(z3.Real('dc_time')), 'fn': t.f['callable'], 'args': ()}, tag='dc')
        t.f['delayed_call'] = dc
    else:
        t.f['delayed_call'] = None
    abstract(t)
    # representation invariant
    p.assume(z3.Implies(to_bool_term(t.f['_active']), status.t))
    args = [t]
    if nargs:
        secs = SNum(z3.Real('secs'))
        args.append(secs)
    return [t], args, {}


def abstract(t):
    dc = t.f['delayed_call']
    if dc is None:
        t.f['_active'] = False
        t.f['_deadline'] = t.f.get('_deadline', SNum(z3.Real('no_deadline')))
    else:
        t.f['_active'] = mk_bool(z3.And(z3.Not(to_bool_term(dc.f['called'])), z3.Not(to_bool_term(dc.f['cancelled']))))
        t.f['_deadline'] = dc.f['time']


def translate_effects(it, t, eff0):
    """the DelayedCall operations are the representation of the abstract timer state: not effects of their own"""
    it.p.effects[eff0:] = [e for e in it.p.effects[eff0:] if e[0] not in ('DCCancel', 'DCReset', 'CallLater')]


def _abs(it, roots, eff0):
    abstract(roots[0])
    translate_effects(it, roots[0], eff0)


def verify_all(prog):
    results = []
    for name, spec, nargs in (('cancel', spec_cancel, 0), ('reset', spec_reset, 1), ('active', spec_active, 0)):
        r = verify(prog, Q + name, lambda it, n=nargs: build_concrete(it, n), spec, abstraction=_abs)
        results.append(r)
    return results
