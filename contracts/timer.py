"""Contracts of yabgp.core.timer.BGPTimer over the abstract timer (status, active, deadline).

Representation (verified here against the real bodies on the DelayedCall model of T1):
    active  <=>  delayed_call is not None and not delayed_call.called and not delayed_call.cancelled
    deadline =   delayed_call.time          (meaningful while active)
    invariant    active => status
"""
import z3
from pyvc.values import SNum, SBool, Obj, mk_num, mk_bool, to_term, to_bool_term
from pyvc.contracts import Spec, Contract, verify
from pyvc.interp import BoundMethod

Q = 'yabgp.core.timer.BGPTimer.'


def _now(c):
    from pyvc.twisted_model import reactor_now
    return SNum(reactor_now(c.it))


def rep_havoc(timer):
    """representation fields that the abstract contract does not speak about"""
    if 'delayed_call' in timer.f:
        dc = timer.f['delayed_call']
        h = [(timer, 'delayed_call')]
        if isinstance(dc, Obj):
            h += [(dc, k) for k in dc.f]
        return h
    return []


def spec_cancel(c, self):
    sp = Spec(havoc=rep_havoc(self))
    if c.branch(to_bool_term(self.f['_active'])):
        sp.updates = [(self, '_active', False), (self, 'status', False)]
        sp.effects = [('TimerCancel', self)]
    return sp


def spec_reset(c, self, seconds_fromnow):
    sp = Spec(havoc=rep_havoc(self))
    secs = seconds_fromnow
    if not c.branch(to_bool_term(self.f['_active'])):
        # starts a fresh DelayedCall: Twisted asserts delay >= 0
        neg = c.it.m.compare(c.it, 'Lt', secs, 0)
        if c.truth(neg):
            sp.updates = [(self, 'status', True)]
            sp.exc = ('AssertionError', {})
            return sp
    deadline = c.it.m.binop(c.it, 'Add', _now(c), secs)
    sp.updates = [(self, 'status', True), (self, '_active', True), (self, '_deadline', deadline)]
    sp.effects = [('TimerSet', self, secs)]
    return sp


def spec_active(c, self):
    sp = Spec(havoc=rep_havoc(self))
    sp.updates = [(self, 'status', True)]
    sp.ret = self.f['_active']
    if isinstance(sp.ret, SBool):
        sp.ret = c.branch(sp.ret.t)
    return sp


CONTRACTS = [
    Contract(Q + 'cancel', spec_cancel),
    Contract(Q + 'reset', spec_reset),
    Contract(Q + 'active', spec_active),
]


# ---------------------------------------------------------------- verification on the concrete representation
def build_concrete(it, nargs):
    p = it.p
    prog = it.prog
    cls = prog.func('yabgp.core.timer.BGPTimer')
    now = z3.Real('now')
    p.assume(now >= 0)
    p.ghost['reactor_now'] = now
    status = SBool(z3.Bool('status'))
    owner = Obj('Owner', tag='owner')
    t = Obj(cls, {'name': 'a timer', 'status': status, 'callable': BoundMethod(cls.lookup('active'), owner)},
            tag='timer')
    if p.branch(z3.Bool('has_dc')):
        dc = Obj('DelayedCall', {'called': SBool(z3.Bool('dc_called')), 'cancelled': SBool(z3.Bool('dc_cancelled')),
                                 'time': SNum(z3.Real('dc_time')), 'fn': t.f['callable'], 'args': ()}, tag='dc')
        t.f['delayed_call'] = dc
    else:
        t.f['delayed_call'] = None
    abstract(t)
    # representation invariant
    p.assume(z3.Implies(to_bool_term(t.f['_active']), status.t))
    args = [t]
    if nargs:
        args.append(SNum(z3.Real('secs')))
    return [t], args, {}


def abstract(t):
    dc = t.f['delayed_call']
    if dc is None:
        t.f['_active'] = False
        t.f['_deadline'] = t.f.get('_deadline', SNum(z3.Real('no_deadline')))
    else:
        t.f['_active'] = mk_bool(z3.And(z3.Not(to_bool_term(dc.f['called'])), z3.Not(to_bool_term(dc.f['cancelled']))))
        t.f['_deadline'] = dc.f['time']


def translate_effects(it, t, eff0):
    """concrete DelayedCall effects -> abstract timer effects"""
    out = []
    for e in it.p.effects[eff0:]:
        if e[0] == 'DCCancel':
            out.append(('TimerCancel', t))
        elif e[0] == 'DCReset':
            out.append(('TimerSet', t, e[2]))
        elif e[0] == 'CallLater':
            out.append(('TimerSet', t, e[2]))
        else:
            out.append(e)
    it.p.effects[eff0:] = out


def verify_all(prog):
    results = []
    for name, spec, nargs in (('cancel', spec_cancel, 0), ('reset', spec_reset, 1), ('active', spec_active, 0)):
        def on_abs(it, roots, eff0):
            t = roots[0]
            abstract(t)
            translate_effects(it, t, eff0)
        r = verify(prog, Q + name, lambda it, n=nargs: build_concrete(it, n), spec, abstraction=on_abs)
        results.append(r)
    return results
