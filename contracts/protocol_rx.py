"""Contracts of the receive side of yabgp.core.protocol.BGP: per-message handlers, parse_buffer, dataReceived.

The (state, message) rows of the RFC 4271 profile live here: what the agent writes, reports, closes and
which state it ends in for every received message, for all message contents.
"""
import z3
from pyvc.values import SNum, SBool, SBytes, Obj, Opaque, mk_num, mk_bool, to_term, to_bool_term, fresh_name
from pyvc.contracts import Spec, Contract, Sim, ANY, Any
from pyvc.session import (ST_IDLE, ST_CONNECT, ST_ACTIVE, ST_OPENSENT, ST_OPENCONFIRM, ST_ESTABLISHED, STAT_KEYS)
from specs import wire, S as SP
from .timer import t_cancel, t_reset, wrap, SimExc
from .session import (Inv, ensure_inv, require_inv, profile_dont_cares, visible, err_close, drop, timer, stat_inc, state_in,
                      p_send_keepalive, p_send_notification, set_state, T, Bt, SESSION_STATES, BGP, FSM, released,
                      ev_open_received, ev_keep_alive_received, ev_update_received, ev_notification_received,
                      live_protocol)

MHE = 'yabgp.common.exception.MessageHeaderError'
OME = 'yabgp.common.exception.OpenMessageError'


def conf_time(s, key):
    return s.it.m.conf.f['time'].f[key]


def caps(s):
    return s.it.m.conf.f['bgp'].f['running_config']['capability']


# ---------------------------------------------------------------- abstract OPEN decoding (tied to C14)
class OpenAbs(object):
    """What the session layer needs from a decoded OPEN body (RFC 4271 4.2 / RFC 5492 / RFC 6793):
    fixed fields read from the octets; the capability part is abstract: whether capability 65 is present
    (and then the AS it carries), whether add-path is present.  C14 proves the real Open.parse against the
    full spec; the abstract view is what that spec projects to."""

    def __init__(self, s, msg):
        m = SBytes.of(msg)
        self.len = m.len
        self.version = mk_num(m.be_int(0, 1))
        self.asn2 = mk_num(m.be_int(1, 2))
        self.hold = mk_num(m.be_int(3, 2))
        self.bgp_id = mk_num(m.be_int(5, 4))
        self.optlen = mk_num(m.be_int(9, 1))


def p_open_parse_abs(s, open_obj, message):
    """ASSUMED contract of Open.parse at the session layer (verified in full under C14)."""
    m = SBytes.of(message)
    if s.branch(m.len < 10):
        raise SimExc(MHE, {'sub_error': wire.HDR_BAD_LEN})
    d = OpenAbs(s, message)
    s.set(open_obj, 'version', d.version)
    s.set(open_obj, 'hold_time', d.hold)
    from pyvc import strings as STR
    s.set(open_obj, 'bgp_id', STR.ip4(d.bgp_id))
    s.set(open_obj, 'opt_para_len', d.optlen)
    if not s.is_(d.version, 4):
        s.set(open_obj, 'asn', d.asn2)
        raise SimExc(OME, {'sub_error': wire.OPEN_BAD_VERSION})
    if s.is_(d.asn2, 0):
        s.set(open_obj, 'asn', d.asn2)
        raise SimExc(OME, {'sub_error': wire.OPEN_BAD_PEER_AS})
    asn = d.asn2
    capa = {}
    if not s.is_(d.optlen, 0):
        s.dont_care(open_obj, 'opt_paras')
        # optional parameters: unsupported parameter type / malformed capability TLVs raise; otherwise a set
        k = s.c.ora_choice('open-opt', 4)
        if k == 0:
            s.set(open_obj, 'asn', ANY)
            s.dont_care(open_obj, 'asn')
            s.dont_care(open_obj, 'capa_dict')
            # unsupported optional parameter (4); a truncated capability is reported by Capability.parse
            # as OpenMessageError carrying the constant 2
            sub = wire.OPEN_UNSUP_OPT if s.c.ora_bool('open-ome-unsup-param') else 2
            raise SimExc(OME, {'sub_error': sub})
        if k == 1:
            s.dont_care(open_obj, 'asn')
            s.dont_care(open_obj, 'capa_dict')
            raise SimExc('OpaqueException', {})
        if k == 2:
            asn = s.c.ora_int('open-asn4', 0, 2 ** 32 - 1)
            capa['four_bytes_as'] = True
        capa['afi_safi'] = Opaque('peer afi/safi list', 'list')
        if s.c.ora_bool('open-addpath'):
            capa['add_path'] = [Opaque('add-path entry', 'dict')]
    s.set(open_obj, 'asn', asn)
    s.set(open_obj, 'capa_dict', capa)
    return ANY


# ---------------------------------------------------------------- per-message handlers
def rx_requires(s, P):
    fsm = s.get(P, 'fsm')
    require_inv(s, fsm)
    s.c.requires(z3.BoolVal(s.get(fsm, 'protocol') is P), 'single-connection regime: receiver is the tracked connection')
    s.c.requires(z3.BoolVal(s.get(P, 'factory') is s.get(fsm, 'bgp_peering')), 'wiring')
    s.c.requires(z3.Or([T(s.get(fsm, 'state')) == k for k in SESSION_STATES]),
                 'T1: messages arrive only on the live tracked connection, i.e. in a session state')
    return fsm


def p_negotiate_hold_time(s, P, hold_time):
    """internal helper (from the code): H := min(H, proposed); 1 and 2 are rejected; KA := H/3"""
    fsm = s.get(P, 'fsm')
    require_inv(s, fsm, structural_only=True)      # called in the middle of OPEN processing
    s.c.requires(z3.And(T(hold_time) >= 0, T(hold_time) <= 65535), 'hold time is a 2-octet field')
    s.c.requires(z3.Or([T(s.get(fsm, 'state')) == k for k in SESSION_STATES]), 'called while handling an OPEN, i.e. in a session state')
    profile_dont_cares(s, fsm)
    H = s.get(fsm, 'hold_time')
    H2 = mk_num(z3.If(T(H) < T(hold_time), T(H), T(hold_time)))
    s.set(fsm, 'hold_time', H2)
    if s.branch(z3.And(T(H2) != 0, T(H2) < 3)):
        err_close(s, fsm, wire.E_OPEN, wire.OPEN_BAD_HOLD)
    s.set(fsm, 'keep_alive_time', s.it.m.binop(s.it, 'Div', H2, 3))
    for name, _ in inv_terms_names(fsm):
        from .session import TIMING_CLAUSES
        if name not in TIMING_CLAUSES:
            s.post.append(('Inv/' + name, (lambda n=name: dict(CS_inv_terms(fsm))[n])))


def inv_terms_names(fsm):
    from .session import inv_terms
    return inv_terms(fsm)


def CS_inv_terms(fsm):
    from .session import inv_terms
    return inv_terms(fsm)


def p_open_received(s, P, timestamp, msg):
    """OPEN arrives (C01 rows for Event 19/22, C05 acceptance policy, C18 counter)"""
    fsm = rx_requires(s, P)
    profile_dont_cares(s, fsm)
    m = SBytes.of(msg)
    if s.branch(m.len >= 10):
        stat_inc(s, P, 'msg_recv_stat', 'Opens')      # C18: counted when the frame has at least the minimum OPEN length (29)
    # ---- decode (errors propagate to parse_buffer, which turns them into NOTIFICATIONs)
    tmp = Obj('OpenScratch', {'version': None, 'asn': None, 'hold_time': None, 'bgp_id': None, 'opt_para_len': None,
                              'opt_paras': None, 'capa_dict': {}})
    s2 = Sim(s.c)
    parse_result = p_open_parse_abs(s2, tmp, msg)       # raises SimExc for malformed / unsupported
    asn, hold, capa = s2.get(tmp, 'asn'), s2.get(tmp, 'hold_time'), s2.get(tmp, 'capa_dict')
    peering = s.get(fsm, 'bgp_peering')
    if not s.branch(T(s.get(peering, 'peer_asn')) == T(asn)):
        raise SimExc(OME, {'sub_error': wire.OPEN_BAD_PEER_AS})
    # ---- accepted as far as version / AS go
    if state_in(s, fsm, (ST_OPENCONFIRM,)):
        ensure_inv(s, fsm)
        return None                                    # no collision possible: ignored, nothing changes
    if state_in(s, fsm, (ST_ESTABLISHED,)):
        err_close(s, fsm, wire.E_FSM, 0)
        s.eff('Report', 'open_received', ANY, ANY)
        # the session is over: what was negotiated for it no longer matters
        for cont, key in ((fsm, 'hold_time'), (fsm, 'keep_alive_time'), (P, 'peer_id'), (peering, 'peer_id'),
                          (P, 'fourbytesas'), (P, 'add_path_ipv4_receive'), (caps(s), 'remote')):
            s.dont_care(cont, key)
        ensure_inv(s, fsm)
        return None
    # OpenSent
    s.dont_care(caps(s), 'remote')          # the peer's capability set as decoded (C14 owns its contents)
    local = caps(s)['local']
    local65 = bool(local.get('four_bytes_as')) or None
    if 'four_bytes_as' in capa:
        # RFC 6793: 4-octet AS numbers are used iff BOTH speakers advertised the capability
        we = s.branch(z3.Or(T(s.get(peering, 'my_asn')) > 65535, z3.BoolVal(bool(local.get('four_bytes_as')))))
        s.set(P, 'fourbytesas', bool(we))
    s.dont_care(P, 'add_path_ipv4_receive')
    s.set(P, 'peer_id', ANY)
    s.dont_care(P, 'peer_id')
    s.dont_care(peering, 'peer_id')
    cfgH = conf_time(s, 'hold_time')
    H2 = mk_num(z3.If(T(cfgH) < T(hold), T(cfgH), T(hold)))          # C05: min(configured, proposed)
    s.set(fsm, 'hold_time', H2)
    if s.branch(z3.And(T(H2) != 0, T(H2) < 3)):
        err_close(s, fsm, wire.E_OPEN, wire.OPEN_BAD_HOLD)
        s.dont_care(fsm, 'keep_alive_time')
        s.dont_care(fsm, 'hold_time')
    else:
        s.set(fsm, 'keep_alive_time', s.it.m.binop(s.it, 'Div', H2, 3))
        # Event 19 row
        t_cancel(s, timer(s, fsm, 'cr'))
        p_send_keepalive(s, P)
        if s.branch(T(H2) > 0):
            t_reset(s, timer(s, fsm, 'ka'), s.get(fsm, 'keep_alive_time'))
            t_reset(s, timer(s, fsm, 'hold'), H2)
        else:
            t_cancel(s, timer(s, fsm, 'ka'))
            t_cancel(s, timer(s, fsm, 'hold'))
        set_state(s, fsm, ST_OPENCONFIRM)
    s.eff('Report', 'open_received', ANY, ANY)
    ensure_inv(s, fsm)
    return None


def p_update_parse_abs(s, msg):
    """ASSUMED at the session layer (C11/C09 own it): Update.parse returns a result dict whose
    'sub_error' is set or not; a body whose two length fields are out of range raises (struct.error)."""
    k = s.c.ora_choice('update-parse', 3)
    if k == 0:
        raise SimExc('OpaqueException', {})
    return {'attr': Opaque('attrs', 'dict'), 'nlri': Opaque('nlri', 'list'), 'withdraw': Opaque('withdraw', 'list'),
            'hex': msg, 'time': ANY, 'err_data': ANY,
            'sub_error': (None if k == 1 else s.c.ora_int('update-sub-error', 1, 255))}


def p_update_received(s, P, timestamp, msg):
    fsm = rx_requires(s, P)
    profile_dont_cares(s, fsm)
    res = p_update_parse_abs(s, msg)
    # RIB / version bookkeeping belongs to C19
    for k in ('adj_rib_in', 'adj_rib_out', 'receive_version', 'flowspec_receive_dict', 'sr_receive_dict',
              'mpls_vpn_receive_dict'):
        s.dont_care(P, k)
    rib_dont_cares(s, P)
    if res['sub_error'] is None:
        if s.c.may('update-post-processing-raises', observe_no_update_report):
            # AFI/SAFI lookup or RIB bookkeeping may raise on odd decoded values: nothing reported, not counted
            raise SimExc('OpaqueException', {})
        s.eff('Report', 'update_received', ANY, ANY)
    else:
        s.eff('Report', 'on_update_error', ANY, ANY)
    stat_inc(s, P, 'msg_recv_stat', 'Updates')
    # Event 27 / 28 rows; C10: a malformed UPDATE body is reported, it does not tear the session down
    if state_in(s, fsm, (ST_ESTABLISHED,)):
        if s.branch(T(s.get(fsm, 'hold_time')) > 0):
            t_reset(s, timer(s, fsm, 'hold'), s.get(fsm, 'hold_time'))
    elif state_in(s, fsm, (ST_OPENSENT, ST_OPENCONFIRM)):
        err_close(s, fsm, wire.E_FSM, 0)
    elif state_in(s, fsm, (ST_CONNECT,)):
        drop(s, fsm)
    ensure_inv(s, fsm)


def observe_no_update_report(out, effects):
    """the post-parse bookkeeping raised: visible as 'no update_received report for a well-formed UPDATE'"""
    if out.kind == 'raise':
        return True
    return not any(e[0] == 'Report' and e[1] in ('update_received', 'on_update_error') for e in effects)


def rib_dont_cares(s, P):
    for name in ('adj_rib_in', 'adj_rib_out', 'receive_version', 'send_version'):
        d = s.get(P, name)
        if isinstance(d, dict):
            for k in list(d.keys()):
                s.dont_care(d, k)
                if isinstance(d[k], dict):
                    pass


def p_notification_received(s, P, msg):
    fsm = rx_requires(s, P)
    profile_dont_cares(s, fsm)
    stat_inc(s, P, 'msg_recv_stat', 'Notifications')
    s.eff('Report', 'notification_received', ANY, ANY)
    error, suberror = msg[0], msg[1]
    ev_notification_received.row(s, fsm, error, suberror)
    ensure_inv(s, fsm)


def p_keepalive_received(s, P, timestamp, msg):
    fsm = rx_requires(s, P)
    mq = s.get(s.get(s.get(P, 'factory'), 'handler'), 'inter_mq')
    s.c.requires(T(s.get(mq, 'n')) == 0, 'A-queue: the application does not use the internal message queue')
    profile_dont_cares(s, fsm)
    stat_inc(s, P, 'msg_recv_stat', 'Keepalives')
    s.eff('Report', 'keepalive_received', ANY, ANY)
    m = SBytes.of(msg)
    if s.branch(m.len != 0):
        raise SimExc(MHE, {'sub_error': wire.HDR_BAD_LEN})
    ev_keep_alive_received.row(s, fsm)
    ensure_inv(s, fsm)


def p_route_refresh_received(s, P, msg, msg_type):
    s.c.requires(z3.BoolVal(isinstance(msg, tuple) and len(msg) == 3), 'decoded (afi, res, safi)')
    stat_inc(s, P, 'msg_recv_stat', 'RouteRefresh')
    s.eff('Report', 'route_refresh_received', ANY, ANY)


# ---------------------------------------------------------------- framing (C04) and dispatch
def frame(s, buf):
    """reference RFC 4271 deframer on the head of the buffer:
    ('incomplete',) | ('hdrerr', subcode, data) | ('msg', type, body, total_length)"""
    b = SBytes.of(buf)
    if s.branch(b.len < wire.HDR_LEN):
        return ('incomplete',)
    marker_ok = z3.And([b.at(i) == 255 for i in range(16)])
    if not s.branch(marker_ok):
        return ('hdrerr', wire.HDR_NOT_SYNC, ANY)
    length = mk_num(b.be_int(16, 2))
    mtype = mk_num(b.be_int(18, 1))
    if s.branch(z3.Or(T(length) < wire.HDR_LEN, T(length) > wire.MAX_LEN)):
        return ('hdrerr', wire.HDR_BAD_LEN, SP.be(length, 2))
    if s.branch(b.len < T(length)):
        return ('incomplete',)
    if not s.branch(z3.Or([T(mtype) == k for k in wire.KNOWN_TYPES])):
        # RFC 4271 6.1 does not say when an unrecognised type is reported; like the code, the reference
        # deframer reports it once the whole message is there (the reaction is the same either way)
        return ('hdrerr', wire.HDR_BAD_TYPE, ANY)
    return ('msg', mtype, b.slice(wire.HDR_LEN, length), length)


def rx_entry_requires(s, P):
    """environment precondition of the receive entry points (T1): the receiver is the tracked connection;
    unless we have closed it ourselves it is live and the FSM is in a session state"""
    fsm = s.get(P, 'fsm')
    require_inv(s, fsm)
    s.c.requires(z3.BoolVal(s.get(fsm, 'protocol') is P), 'single-connection regime: receiver is the tracked connection')
    s.c.requires(z3.BoolVal(s.get(P, 'factory') is s.get(fsm, 'bgp_peering')), 'wiring')
    s.c.requires(z3.Implies(z3.Not(Bt(s.get(P, 'disconnected'))),
                            z3.And(live_protocol(s, fsm), z3.Or([T(s.get(fsm, 'state')) == k for k in SESSION_STATES]))),
                 'T1: data arrives on a live connection, which is in a session state')
    mq = s.get(s.get(s.get(P, 'factory'), 'handler'), 'inter_mq')
    s.c.requires(T(s.get(mq, 'n')) == 0, 'A-queue: the application does not use the internal message queue')
    return fsm


def p_parse_buffer(s, P):
    fsm = rx_entry_requires(s, P)
    if s.branch(Bt(s.get(P, 'disconnected'))):
        # C04: nothing after the message that made us close is processed, however TCP cut the stream
        ensure_inv(s, fsm)
        return False
    profile_dont_cares(s, fsm)
    buf = s.get(P, '_receive_buffer')
    fr = frame(s, buf)
    if fr[0] == 'incomplete':
        ensure_inv(s, fsm)
        return False
    if fr[0] == 'hdrerr':
        err_close(s, fsm, wire.E_HDR, fr[1], fr[2])
        ensure_inv(s, fsm)
        return closed(s, P)
    _, mtype, body, length = fr
    consumed = SBytes.of(buf).slice(length, None)
    try:
        if s.is_(mtype, wire.T_OPEN):
            try:
                p_open_received_inner(s, P, body)
            except SimExc as e:
                if e.cls == MHE:
                    err_close(s, fsm, wire.E_HDR, e.fields['sub_error'])
                    ensure_inv(s, fsm)
                    return closed(s, P)
                if e.cls == OME:
                    err_close(s, fsm, wire.E_OPEN, e.fields['sub_error'])
                    ensure_inv(s, fsm)
                    return closed(s, P)
                raise
        elif s.is_(mtype, wire.T_UPDATE):
            p_update_received(s, P, ANY, body)
        elif s.is_(mtype, wire.T_NOTIFICATION):
            b = SBytes.of(body)
            if s.branch(b.len < 2):
                raise SimExc('struct.error', {})
            p_notification_received(s, P, (mk_num(b.be_int(0, 1)), mk_num(b.be_int(1, 1)), b.slice(2, None)))
        elif s.is_(mtype, wire.T_KEEPALIVE):
            try:
                p_keepalive_received(s, P, ANY, body)
            except SimExc as e:
                if e.cls == MHE:
                    err_close(s, fsm, wire.E_HDR, e.fields['sub_error'])
                    ensure_inv(s, fsm)
                    return closed(s, P)
                raise
        else:
            b = SBytes.of(body)
            if s.branch(b.len < 4):
                raise SimExc('struct.error', {})
            if s.branch(b.len > 4):
                # longer ROUTE-REFRESH bodies (e.g. ORF entries) are not decoded, but C18 counts the frame:
                # it has at least the minimum length of its type
                stat_inc(s, P, 'msg_recv_stat', 'RouteRefresh')
                raise SimExc('struct.error', {})
            p_route_refresh_received(s, P, (mk_num(b.be_int(0, 2)), mk_num(b.be_int(2, 1)), mk_num(b.be_int(3, 1))), mtype)
    except SimExc as e:
        # C10: whatever goes wrong inside one message's handling is contained: logged, message consumed
        if e.cls not in ('OpaqueException', 'struct.error'):
            raise
    s.set(P, '_receive_buffer', consumed)
    ensure_inv(s, fsm)
    return True


def closed(s, P):
    """after an error close the connection is gone: what is left in the receive buffer and whether this
    call reports 'consumed' are immaterial (dataReceived stops: see its contract)"""
    s.dont_care(P, '_receive_buffer')
    return ANY


def p_open_received_inner(s, P, body):
    """p_open_received without re-stating the requires (already established by parse_buffer)"""
    p_open_received(s, P, ANY, body)


def p_update_receive_version_abs(s, P, attr, nlri, withdraw):
    """ASSUMED at the session layer (C19 owns it): touches only the version counters and rule tables;
    may raise on oddly shaped decoded values"""
    for k in ('receive_version', 'flowspec_receive_dict', 'sr_receive_dict', 'mpls_vpn_receive_dict'):
        s.dont_care(P, k)
    rib_dont_cares(s, P)
    if s.c.ora_bool('update_receive_version-raises'):
        raise SimExc('OpaqueException', {})


def p_update_rib_in_abs(s, P, msg):
    """ASSUMED at the session layer (C19 owns it): touches only the Adj-RIB-In and its counter; never raises"""
    s.dont_care(P, 'adj_rib_in')
    rib_dont_cares(s, P)
    return ANY


ASSUMED_SPECS = {
    BGP + 'update_receive_verion': wrap(p_update_receive_version_abs),
    BGP + 'update_rib_in_ipv4': wrap(p_update_rib_in_abs),
}

HELPER_SPECS = {
    BGP + 'negotiate_hold_time': wrap(p_negotiate_hold_time),
}


def rx(fn):
    """receive-handler spec: Inv is re-established on every exit, exceptional ones included"""
    def prog(s, P, *args):
        try:
            return fn(s, P, *args)
        except SimExc:
            fsm = s.get(P, 'fsm')
            if not any(n.startswith('Inv/') for n, _ in s.post):
                ensure_inv(s, fsm)
            raise
    prog.__name__ = fn.__name__
    return prog


def _vis(spec):
    def spec2(c, *a):
        sp = spec(c, *a)
        sp.effects = visible(sp.effects)
        sp.effect_filter = visible
        return sp
    return spec2


RX_SPECS = {
    '_open_received': _vis(wrap(rx(p_open_received))),
    '_update_received': _vis(wrap(rx(p_update_received))),
    '_notification_received': _vis(wrap(rx(p_notification_received))),
    '_keepalive_received': _vis(wrap(rx(p_keepalive_received))),
    '_route_refresh_received': _vis(wrap(p_route_refresh_received)),
    'parse_buffer': _vis(wrap(rx(p_parse_buffer))),
}


def p_dataReceived(s, P, data):
    """C04/C10 at the Twisted entry point: the chunk is appended and parsed message by message; the call
    terminates, lets nothing escape and re-establishes Inv.  (What each step does is parse_buffer's contract.)"""
    fsm = rx_entry_requires(s, P)
    profile_dont_cares(s, fsm)
    ensure_inv(s, fsm)
    return None


def incomplete_term(buf):
    """the reference deframer needs more octets before it can say anything about the head of `buf`"""
    b = SBytes.of(buf)
    marker_ok = z3.And([b.at(i) == 255 for i in range(16)])
    length = b.be_int(16, 2)
    return z3.Or(b.len < wire.HDR_LEN,
                 z3.And(marker_ok, length >= wire.HDR_LEN, length <= wire.MAX_LEN, b.len < length))


def spec_dataReceived(c, P, data):
    sp = wrap(p_dataReceived)(c, P, data)
    sp.loop_abstract = True          # effects and the touched fields are those of the loop: not compared

    def drained():
        # C04: when dataReceived returns, nothing that the deframer can already decide is left waiting in the buffer —
        # however small the chunk that completed it was (unless the agent closed the connection itself)
        return z3.Or(Bt(P.f['disconnected']), incomplete_term(P.f['_receive_buffer']))
    sp.post = list(sp.post) + [('C04-buffer-drained', drained)]
    return sp


def rx_entry_terms(P):
    """the receive entry precondition as (name, term) over the CURRENT heap (loop invariant of dataReceived)"""
    from .session import inv_terms
    fsm = P.f['fsm']
    out = [('Inv/' + n, t) for n, t in inv_terms(fsm)]
    tr = P.f['transport']
    live = z3.And(T(tr.f['connected']) != 0, z3.Not(Bt(tr.f['disconnecting'])), z3.Not(Bt(P.f['disconnected'])))
    out.append(('tracked', z3.BoolVal(fsm.f['protocol'] is P)))
    out.append(('live-unless-closed-by-us', z3.Implies(z3.Not(Bt(P.f['disconnected'])),
                                                      z3.And(live, z3.Or([T(fsm.f['state']) == k for k in SESSION_STATES])))))
    mq = P.f['factory'].f['handler'].f['inter_mq']
    out.append(('queue-unused', T(mq.f['n']) == 0))
    return out


def dataReceived_loop_rule(S):
    from pyvc.contracts import make_while_rule, havoc_heap

    def inv(it, env):
        return rx_entry_terms(S.P)

    def variant(it, env):
        buf = SBytes.of(S.P.f['_receive_buffer'])
        return z3.If(Bt(S.P.f['disconnected']), z3.IntVal(0), 1 + buf.len)

    def havoc(it, env):
        # fields that no function of yabgp ever assigns after construction (AST-wide store scan: C01 frame)
        havoc_heap(it, [S.fsm, S.peering, S.P], skip=(S.handler.f['inter_mq'],),
                   skip_keys=('delay_open', 'allow_automatic_stop', 'connect_retry_time', 'delay_open_time',
                              'idle_hold_time', 'name', 'my_asn', 'peer_asn'))
        it.p.effect('LoopHavoc')
    return make_while_rule(inv, variant, havoc)
