"""Dual-mode combinators for wire-format specs."""
import z3
from pyvc.values import SBytes, SNum, SBool, to_term, mk_num, mk_bool


def is_sym(*vs):
    return any(isinstance(v, (SBytes, SNum, SBool)) for v in vs)


def be(v, width):
    """big-endian unsigned integer of `width` octets (caller guarantees 0 <= v < 256**width)"""
    if isinstance(v, bool):
        v = int(v)
    if isinstance(v, int):
        return v.to_bytes(width, 'big')
    t = to_term(v)
    from pyvc.values import digits_hint
    octs = digits_hint(t, width)
    if octs is not None:
        def at_h(i, octs=octs):
            if z3.is_int_value(i):
                k = i.as_long()
                return octs[k] if 0 <= k < len(octs) else z3.IntVal(0)
            e = z3.IntVal(0)
            for k in range(len(octs) - 1, -1, -1):
                e = z3.If(i == k, octs[k], e)
            return e
        return SBytes(width, at_h)

    def at(i, t=t, w=width):
        if z3.is_int_value(i):
            k = i.as_long()
            return z3.simplify((t / (256 ** (w - 1 - k))) % 256) if 0 <= k < w else z3.IntVal(0)
        e = z3.IntVal(0)
        for k in range(w - 1, -1, -1):
            e = z3.If(i == k, (t / (256 ** (w - 1 - k))) % 256, e)
        return e
    return SBytes(width, at)


def cat(*parts):
    if all(isinstance(p, (bytes, bytearray)) for p in parts):
        return b''.join(bytes(p) for p in parts)
    out = SBytes.const(b'')
    for p in parts:
        out = out.concat(SBytes.of(p))
    return out


def blen(b):
    if isinstance(b, (bytes, bytearray)):
        return len(b)
    return mk_num(b.len)


def add(a, b):
    if isinstance(a, (int, float)) and isinstance(b, (int, float)):
        return a + b
    return mk_num(to_term(a) + to_term(b))


def rd(b, off, width):
    """read big-endian unsigned integer"""
    if isinstance(b, (bytes, bytearray)) and isinstance(off, int):
        return int.from_bytes(b[off:off + width], 'big')
    return mk_num(SBytes.of(b).be_int(to_term(off) if not isinstance(off, int) else off, width))


def sl(b, lo, hi=None):
    if isinstance(b, (bytes, bytearray)) and isinstance(lo, int) and (hi is None or isinstance(hi, int)):
        return b[lo:hi]
    return SBytes.of(b).slice(lo, hi)
