"""RFC 4271 4.2 OPEN, RFC 5492 capabilities, RFC 6793 4-octet AS, RFC 4760 MP, RFC 2918/7313 route refresh,
RFC 7911 add-path, RFC 8950 extended next hop, RFC 9494 LLGR — reference encoder and the decoded view.

Written from the RFCs.  Capability "items" are plain tuples so that the same description drives the reference
encoder (symbolic or concrete field values) and the expected decode result:

  ('mp', afi, safi) ('rr',) ('rr_cisco',) ('err',) ('gr',) ('as4', asn) ('addpath', [(afi, safi, sr), ...])
  ('enh', [(afi, safi, nhafi), ...]) ('llgr', [(afi, safi, flags, time), ...]) ('multisession',) ('unknown', code, value_bytes)
"""
from . import S
from .wire import header, T_OPEN

CAP_CODE = {'mp': 1, 'rr': 2, 'enh': 5, 'gr': 64, 'as4': 65, 'addpath': 69, 'err': 70, 'llgr': 71, 'rr_cisco': 128,
            'multisession': 131}
AS_TRANS = 23456
ADDPATH_SR = {1: 'receive', 2: 'send', 3: 'both'}


def cap_value(item):
    k = item[0]
    if k == 'mp':
        return S.cat(S.be(item[1], 2), b'\x00', S.be(item[2], 1))
    if k in ('rr', 'rr_cisco', 'err', 'gr', 'multisession'):
        return b''
    if k == 'as4':
        return S.be(item[1], 4)
    if k == 'addpath':
        return S.cat(*[S.cat(S.be(a, 2), S.be(s, 1), S.be(sr, 1)) for (a, s, sr) in item[1]]) if item[1] else b''
    if k == 'enh':
        return S.cat(*[S.cat(S.be(a, 2), S.be(s, 2), S.be(n, 2)) for (a, s, n) in item[1]]) if item[1] else b''
    if k == 'llgr':
        return S.cat(*[S.cat(S.be(a, 2), S.be(s, 1), S.be(fl, 1), S.be(t, 3)) for (a, s, fl, t) in item[1]]) if item[1] else b''
    if k == 'unknown':
        return item[2]
    raise ValueError(k)


def cap_tlv(item):
    code = item[1] if item[0] == 'unknown' else CAP_CODE[item[0]]
    v = cap_value(item)
    return S.cat(S.be(code, 1), S.be(S.blen(v), 1), v)


def opt_param(cap_items):
    """one optional parameter of type 2 (Capabilities) carrying the given capabilities"""
    body = S.cat(*[cap_tlv(i) for i in cap_items]) if cap_items else b''
    return S.cat(b'\x02', S.be(S.blen(body), 1), body)


def open_body(version, asn2, hold, bgp_id, params):
    """params: list of lists of capability items (one inner list per optional parameter)"""
    opt = S.cat(*[opt_param(p) for p in params]) if params else b''
    return S.cat(S.be(version, 1), S.be(asn2, 2), S.be(hold, 2), S.be(bgp_id, 4), S.be(S.blen(opt), 1), opt)


def open_msg(version, asn2, hold, bgp_id, params):
    return header(T_OPEN, open_body(version, asn2, hold, bgp_id, params))


# ---------------------------------------------------------------- what the agent sends (C05)
def local_cap_items(my_asn_gt_65535, my_asn, local):
    """capabilities the agent advertises for a configured capability set `local` (dict as in
    CONF.bgp.running_config['capability']['local']); one capability per optional parameter, in the order
    the implementation emits them (the properties fix the SET, not the order)."""
    items = []
    if 'afi_safi' in local:
        for (afi, safi) in local['afi_safi']:
            items.append(('mp', afi, safi))
    if local.get('cisco_route_refresh'):
        items.append(('rr_cisco',))
    if local.get('route_refresh'):
        items.append(('rr',))
    if my_asn_gt_65535 or local.get('four_bytes_as'):
        items.append(('as4', my_asn))
    if 'ext_nexthop' in local:
        items.append(('enh', [(e['afi_safi'][0], e['afi_safi'][1], e['nexthop_afi']) for e in local['ext_nexthop']]))
    if local.get('add_path'):
        sr = {'ipv4_receive': 1, 'ipv4_send': 2, 'ipv4_both': 3}[local['add_path']]
        items.append(('addpath', [(1, 1, sr)]))
    if local.get('enhanced_route_refresh'):
        items.append(('err',))
    return items


# ---------------------------------------------------------------- decoded view of a capability list (C14)
def decoded_caps(items, render):
    """the capability dict Open.parse reports for the capability items, in order (later items of the same
    kind extend / override as a dict keyed by capability name does)"""
    d = {}
    for it in items:
        k = it[0]
        if k == 'as4':
            d['four_bytes_as'] = True
        elif k == 'mp':
            d.setdefault('afi_safi', []).append((it[1], it[2]))
        elif k == 'rr':
            d['route_refresh'] = True
        elif k == 'rr_cisco':
            d['cisco_route_refresh'] = True
        elif k == 'gr':
            d['graceful_restart'] = True
        elif k == 'multisession':
            d['cisco_multi_session'] = True
        elif k == 'err':
            d['enhanced_route_refresh'] = True
        elif k == 'addpath':
            d.setdefault('add_path', [])
            for (a, s, sr) in it[1]:
                d['add_path'].append({'afi_safi': render['afi_safi'](a, s), 'send/receive': ADDPATH_SR[sr]})
        elif k == 'llgr':
            d['LLGR'] = [{'afi_safi': [a, s], 'time': t} for (a, s, fl, t) in it[1]]
        elif k == 'enh':
            d['ext_nexthop'] = [{'afi_safi': [a, s], 'nexthop_afi': n} for (a, s, n) in it[1]]
        elif k == 'unknown':
            d[render['key'](it[1])] = render['repr_bytes'](it[2])
    return d


def effective_as(asn2, items):
    """RFC 6793: the peer's AS is the 4-octet capability value when that capability is present"""
    a = asn2
    for it in items:
        if it[0] == 'as4':
            a = it[1]
    return a
