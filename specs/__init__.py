"""Specification library: RFC wire formats and the RFC 4271 FSM profile, written from the RFCs and the
property statements (not from yabgp's code).  Dual mode: the combinators work on symbolic values
(pyvc SBytes / SNum -> z3 terms) and on plain Python values (bytes / int), so the same text is the proof
oracle and the replay oracle."""
