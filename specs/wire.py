"""RFC 4271 section 4: message header and the fixed-format messages."""
from . import S

MARKER = b'\xff' * 16
HDR_LEN, MAX_LEN = 19, 4096
T_OPEN, T_UPDATE, T_NOTIFICATION, T_KEEPALIVE, T_ROUTE_REFRESH, T_CISCO_ROUTE_REFRESH = 1, 2, 3, 4, 5, 128
KNOWN_TYPES = (1, 2, 3, 4, 5, 128)
# RFC 4271 section 6.1 Message Header Error subcodes
HDR_NOT_SYNC, HDR_BAD_LEN, HDR_BAD_TYPE = 1, 2, 3
# error codes
E_HDR, E_OPEN, E_UPDATE, E_HOLD, E_FSM, E_CEASE = 1, 2, 3, 4, 5, 6
# OPEN subcodes
OPEN_BAD_VERSION, OPEN_BAD_PEER_AS, OPEN_BAD_BGP_ID, OPEN_UNSUP_OPT, OPEN_BAD_HOLD = 1, 2, 3, 4, 6
# minimum total message lengths per type (RFC 4271 section 4.x, RFC 2918)
MIN_LEN = {1: 29, 2: 23, 3: 21, 4: 19, 5: 23, 128: 23}


def header(msg_type, body):
    """16 x 0xFF, 2-octet total length, 1-octet type, body"""
    return S.cat(MARKER, S.be(S.add(S.blen(body), 19), 2), S.be(msg_type, 1), body)


def notification(code, sub, data=b''):
    return header(T_NOTIFICATION, S.cat(S.be(code, 1), S.be(sub, 1), data))


def keepalive():
    return header(T_KEEPALIVE, b'')


def route_refresh(afi, res, safi, msg_type=T_ROUTE_REFRESH):
    return header(msg_type, S.cat(S.be(afi, 2), S.be(res, 1), S.be(safi, 1)))


def notification_any_data(code, sub):
    """a NOTIFICATION with the given code/subcode and ANY data field (the properties fix code and subcode only)"""
    import z3
    from pyvc.contracts import Any
    from pyvc.values import SBytes, to_term

    def pred(got):
        g = SBytes.of(got)
        return z3.And([g.len >= 21, g.len <= MAX_LEN] + [g.at(i) == 255 for i in range(16)] +
                      [g.be_int(16, 2) == g.len, g.at(18) == T_NOTIFICATION, g.at(19) == to_term(code),
                       g.at(20) == to_term(sub)])
    return Any(pred, 'NOTIFICATION(%s,%s,*)' % (code, sub))
