"""specs/walker.py — independent structural walker for nested TLV encodings (C08).  Shares no code with yabgp's decoders.

walk(b, type_w, len_w) splits an octet string into (type, value) pieces; it is exact only if the pieces sum exactly to the
container.  Length octets must simplify to constants (they do for the constructors under contract: lengths are computed
from concrete shapes); otherwise WalkUndetermined is raised and the obligation is left undecided, never passed."""
import z3
from pyvc.values import SBytes


class WalkUndetermined(Exception):
    pass


def _const(t):
    t = z3.simplify(t)
    if z3.is_int_value(t):
        return t.as_long()
    raise WalkUndetermined(str(t)[:80])


def walk(b, type_w, len_w_of):
    """-> (pieces, exact) ; len_w_of(type) gives the width of the length field for that type"""
    b = SBytes.of(b)
    n = _const(b.len)
    pos = 0
    out = []
    while pos < n:
        if pos + type_w > n:
            return out, False
        t = _const(b.be_int(pos, type_w))
        lw = len_w_of(t)
        if pos + type_w + lw > n:
            return out, False
        ln = _const(b.be_int(pos + type_w, lw))
        start = pos + type_w + lw
        if start + ln > n:
            return out, False
        out.append((t, b.slice(start, start + ln)))
        pos = start + ln
    return out, pos == n


def wf_tunnel_encaps(b):
    """Tunnel Encapsulation attribute (RFC 9012) carrying SR-TE policy sub-TLVs (draft-ietf-idr-segment-routing-te-policy):
    attribute(ext length) > tunnel TLVs (2-octet type, 2-octet length) > sub-TLVs (1-octet type; 1-octet length below 128,
    2-octet from 128 on) > segment list (128): one reserved octet, then sub-TLVs with 1-octet type and length.
    Returns a list of problems (empty = well-formed)."""
    b = SBytes.of(b)
    probs = []
    n = _const(b.len)
    if n < 4:
        return ['attribute shorter than its header']
    flags = _const(b.at(0))
    if not flags & 0x10:
        return ['2-octet attribute length without the extended-length bit']
    if flags & 0xE0 != 0xC0:
        probs.append('attribute flags %#x: optional transitive expected' % flags)
    if _const(b.at(1)) != 23:
        probs.append('attribute type %d' % _const(b.at(1)))
    if _const(b.be_int(2, 2)) != n - 4:
        probs.append('attribute length %d, %d octets follow' % (_const(b.be_int(2, 2)), n - 4))
        return probs
    tunnels, exact = walk(b.slice(4, n), 2, lambda t: 2)
    if not exact:
        probs.append('tunnel TLVs do not sum to the attribute value')
    for (tt, tv) in tunnels:
        subs, exact = walk(tv, 1, lambda t: 1 if t < 128 else 2)
        if not exact:
            probs.append('sub-TLVs of tunnel type %d do not sum to the tunnel TLV' % tt)
        for (st, sv) in subs:
            if st == 128:
                m = _const(sv.len)
                if m < 1:
                    probs.append('segment list without its reserved octet')
                    continue
                segs, exact = walk(sv.slice(1, m), 1, lambda t: 1)
                if not exact:
                    probs.append('segment sub-TLVs do not sum to the segment list (%s)' % [(t, _const(v.len)) for t, v in segs])
                for (gt, gv) in segs:
                    want = SEGMENT_LEN.get(gt)
                    if want is not None and _const(gv.len) not in want:
                        probs.append('segment type %d with %d octets' % (gt, _const(gv.len)))
    return probs


# value sizes of the segment sub-TLVs (flags + reserved + fields [+ optional 4-octet SID]); 9 = weight
SEGMENT_LEN = {1: (6,), 3: (6, 10), 5: (10, 14), 6: (10, 14), 9: (6,)}
