"""RFC 4271 section 4.3 / 5 path attributes (and RFC 1997, 4360 header only, 4456, 6793, 8092) — reference
encoders and decoders, written from the RFCs.  Text forms are the ones the property statements name
("communities in the decoder's text form").

Values:  ORIGIN int 0..2 · AS_PATH [(seg_type, [asn,...]), ...] · NEXT_HOP / ORIGINATOR_ID 'a.b.c.d' ·
MED / LOCAL_PREF int · ATOMIC_AGGREGATE '' · AGGREGATOR (asn, 'a.b.c.d') · COMMUNITIES ['a:b' | well-known name] ·
CLUSTER_LIST ['a.b.c.d', ...] · LARGE COMMUNITIES ['g:l1:l2', ...]
"""
import z3
from . import S
from pyvc.values import SBytes, SNum, mk_num, to_term
from pyvc import strings as STR

OPTIONAL, TRANSITIVE, PARTIAL, EXTENDED = 0x80, 0x40, 0x20, 0x10
# RFC category of each attribute type: the high flag bits a locally originated attribute must carry
CATEGORY = {1: TRANSITIVE, 2: TRANSITIVE, 3: TRANSITIVE, 4: OPTIONAL, 5: TRANSITIVE, 6: TRANSITIVE,
            7: OPTIONAL | TRANSITIVE, 8: OPTIONAL | TRANSITIVE, 9: OPTIONAL, 10: OPTIONAL, 14: OPTIONAL, 15: OPTIONAL,
            16: OPTIONAL | TRANSITIVE, 17: OPTIONAL | TRANSITIVE, 18: OPTIONAL | TRANSITIVE, 22: OPTIONAL | TRANSITIVE,
            23: OPTIONAL | TRANSITIVE, 32: OPTIONAL | TRANSITIVE, 40: OPTIONAL | TRANSITIVE, 29: OPTIONAL}
WELL_KNOWN_COMMUNITIES = None      # filled from yabgp.common.constants by the units (names are data, not logic)


def attr(type_code, body, flags=None, force_extended=False):
    """attribute TLV: flags, type, 1- or 2-octet length chosen by the size of the body (extended-length bit agrees)"""
    fl = CATEGORY[type_code] if flags is None else flags
    n = S.blen(body)
    if isinstance(n, int):
        ext = force_extended or n > 255
        if ext:
            return S.cat(S.be(fl | EXTENDED, 1), S.be(type_code, 1), S.be(n, 2), body)
        return S.cat(S.be(fl, 1), S.be(type_code, 1), S.be(n, 1), body)
    raise ValueError('attribute body of symbolic length: choose the length form explicitly')


def origin_enc(v):
    return attr(1, S.be(v, 1))


def as_path_body(segments, asn4):
    w = 4 if asn4 else 2
    out = []
    for (t, asns) in segments:
        out.append(S.cat(S.be(t, 1), S.be(len(asns), 1), *[S.be(a, w) for a in asns]))
    return S.cat(*out) if out else b''


def as_path_enc(segments, asn4):
    return attr(2, as_path_body(segments, asn4))


def ip4_enc(n):
    return S.be(n, 4)


def next_hop_enc(n):
    return attr(3, ip4_enc(n))


def med_enc(v):
    return attr(4, S.be(v, 4))


def local_pref_enc(v):
    return attr(5, S.be(v, 4))


def atomic_aggregate_enc():
    return attr(6, b'')


def aggregator_enc(asn, ip, asn4):
    return attr(7, S.cat(S.be(asn, 4 if asn4 else 2), ip4_enc(ip)))


def communities_enc(values):
    """values: list of 32-bit integers"""
    return attr(8, S.cat(*[S.be(v, 4) for v in values]) if values else b'')


def originator_id_enc(n):
    return attr(9, ip4_enc(n))


def cluster_list_enc(ips):
    return attr(10, S.cat(*[ip4_enc(i) for i in ips]) if ips else b'')


def large_communities_enc(triples, flags=None):
    return attr(32, S.cat(*[S.cat(S.be(a, 4), S.be(b, 4), S.be(c, 4)) for (a, b, c) in triples]) if triples else b'', flags=flags)


# ---- text forms
def community_text(v, names):
    """'hi:lo' or the well-known name (v is a concrete int or symbolic: the caller splits on well-knownness)"""
    if isinstance(v, int):
        if v in names:
            return names[v]
        return '%d:%d' % (v >> 16, v & 0xffff)
    t = to_term(v)
    return STR.concat([STR.dec(mk_num(t / 65536)), ':', STR.dec(mk_num(t % 65536))])


def large_community_text(a, b, c):
    return STR.concat([STR.dec(a) if not isinstance(a, int) else str(a), ':',
                       STR.dec(b) if not isinstance(b, int) else str(b), ':',
                       STR.dec(c) if not isinstance(c, int) else str(c)])


def prefix4_text(addr, plen):
    return STR.concat([STR.ip4(addr), '/', STR.dec(plen) if not isinstance(plen, int) else str(plen)])


# ---- IPv4 NLRI (RFC 4271 4.3)
def prefix4_octets(plen):
    return (plen + 7) // 8


def prefix4_enc(addr, plen):
    """<length, prefix> with ceil(len/8) octets; plen concrete, addr symbolic or concrete (host bits as given)"""
    n = prefix4_octets(plen)
    full = S.be(addr, 4)
    return S.cat(S.be(plen, 1), S.sl(full, 0, n))


def masked(addr, plen):
    """addr with the bits beyond plen cleared (what a decoder must report: trailing bits are irrelevant)"""
    if plen == 0:
        return 0
    k = 2 ** (32 - plen)
    if isinstance(addr, int):
        return (addr // k) * k
    return mk_num((to_term(addr) / k) * k)


def update_body(withdrawn, attrs, nlri):
    """withdrawn/nlri: encoded prefix octets; attrs: encoded attribute octets"""
    return S.cat(S.be(S.blen(withdrawn), 2), withdrawn, S.be(S.blen(attrs), 2), attrs, nlri)
