"""pyvc.replay — counter-model / path-witness -> concrete request -> native run on the real code -> comparison."""
import json
import os
import subprocess
import binascii
import fractions
import z3

from .values import SNum, SBool, SBytes, Obj, Opaque
from .contracts import Any, snapshot
from .strings import SStr, Atom

VENV_PY = os.environ.get('VERIF_VENV_PY', '/venv/bin/python')
HERE = os.path.dirname(os.path.dirname(os.path.abspath(__file__)))
MAX_BYTES = 8192


def mval(model, t):
    v = model.eval(t, model_completion=True) if model is not None else z3.simplify(t)
    if z3.is_int_value(v):
        return v.as_long()
    if z3.is_rational_value(v):
        n, d = v.numerator_as_long(), v.denominator_as_long()
        return n if d == 1 else n / d
    if z3.is_true(v):
        return True
    if z3.is_false(v):
        return False
    if z3.is_algebraic_value(v):
        return float(v.approx(10).as_decimal(10).rstrip('?'))
    raise ValueError('cannot evaluate %s -> %s' % (t, v))


def concretize(model, v):
    """symbolic value -> python value under the model"""
    if isinstance(v, SNum):
        return mval(model, v.t)
    if isinstance(v, SBool):
        return mval(model, v.t)
    if isinstance(v, SBytes):
        n = mval(model, v.len)
        if n > MAX_BYTES:
            raise ValueError('byte string of %d octets in model' % n)
        return bytes(mval(model, v.at(i)) & 255 for i in range(n))
    if isinstance(v, SStr):
        return concretize_str(model, v)
    if isinstance(v, (list, tuple)):
        return type(v)(concretize(model, x) for x in v)
    if isinstance(v, dict):
        return {concretize(model, k): concretize(model, x) for k, x in v.items()}
    if type(v).__name__ == 'SymKey':
        return concretize(model, v.v)
    return v


def concretize_str(model, s):
    out = []
    for p in s.parts:
        if isinstance(p, str):
            out.append(p)
            continue
        if p.kind == 'dec':
            out.append(str(mval(model, p.t)))
        elif p.kind == 'ip4':
            n = mval(model, p.t)
            out.append('%d.%d.%d.%d' % ((n >> 24) & 255, (n >> 16) & 255, (n >> 8) & 255, n & 255))
        elif p.kind == 'ip6':
            from .strings import ip6_text
            out.append(ip6_text(mval(model, p.t)))
        elif p.kind == 'hex':
            out.append(binascii.b2a_hex(concretize(model, p.t)).decode())
        elif p.kind == 'mac':
            h = '%012X' % mval(model, p.t)
            out.append('-'.join(h[i:i + 2] for i in range(0, 12, 2)))
        elif p.kind == 'hexbyte':
            out.append('%02X' % mval(model, p.t))
        elif p.kind == 'hexint':
            spec, conv = p.extra
            out.append(('%' + spec + conv) % mval(model, p.t))
        elif p.kind == 'reprbytes':
            out.append(repr(concretize(model, p.t)))
        else:
            raise ValueError('atom %s' % p.kind)
    return ''.join(out)


def jval(v):
    if isinstance(v, (bytes, bytearray)):
        return {'hex': binascii.b2a_hex(bytes(v)).decode()}
    if isinstance(v, dict):
        return {'dict': [[jval(k), jval(x)] for k, x in v.items()]}
    if isinstance(v, list):
        return {'list': [jval(x) for x in v]}
    if isinstance(v, tuple):
        return {'tuple': [jval(x) for x in v]}
    if isinstance(v, fractions.Fraction):
        return float(v)
    if isinstance(v, Obj):
        kind = v.clsname
        if kind == 'BGP':
            return {'obj': 'P'}
        d = {'obj': kind}
        if kind == 'Addr':
            d.update({'host': v.f.get('host'), 'port': v.f.get('port')})
        return d
    return v


def unj(v):
    if isinstance(v, dict):
        if 'hex' in v:
            return binascii.a2b_hex(v['hex'])
        if 'dict' in v:
            return {_hashable(unj(k)): unj(x) for k, x in v['dict']}
        if 'list' in v:
            return [unj(x) for x in v['list']]
        if 'tuple' in v:
            return tuple(unj(x) for x in v['tuple'])
        if 'repr' in v:
            return ('<repr>', v['repr'])
    return v


def _hashable(k):
    return tuple(k) if isinstance(k, list) else k


def run_native(requests, timeout_s=300):
    """run a batch of requests on the real code under /venv/bin/python"""
    if not requests:
        return []
    env = dict(os.environ)
    env['PYTHONDONTWRITEBYTECODE'] = '1'
    p = subprocess.run([VENV_PY, os.path.join(HERE, 'native', 'runner.py')], input=json.dumps(requests),
                       capture_output=True, text=True, timeout=timeout_s, env=env)
    if p.returncode != 0:
        raise RuntimeError('native runner failed: %s' % p.stderr[-2000:])
    return json.loads(p.stdout)


# ---------------------------------------------------------------- session-level views
TIMER_SHORT = ('cr', 'hold', 'ka', 'dopen', 'ihold')


def session_state_request(S, model):
    """Session pre-state under a model -> native 'state' dict"""
    ev = lambda v: concretize(model, v)
    f = S.fsm.f
    st = {'st': ev(S.st), 'H': ev(S.H), 'KA': ev(S.KA), 'allow_auto': ev(S.allow_auto), 'crc': ev(S.crc),
          'with_protocol': S.P is not None, 'peering_status': ev(S.peering.f['status']),
          'peer_id': ev(S.peer_id0), 'bgp_id': ev(S.pre['peering.bgp_id']),
          'conf': {'cfgH': ev(S.cfgH), 'cr_t': ev(S.cr_t), 'ih_t': ev(S.ih_t), 'do_t': ev(S.do_t), 'cfgKA': ev(S.cfgKA),
                   'local_as': ev(S.local_as), 'remote_as': ev(S.remote_as), 'now': float(ev(SNum(S.now))),
                   'rib': ev(S.rib), 'caps': jval(ev(S.caps0))},
          'n_pending': ev(S.n_pending0), 'timers': {}}
    for sh, t in S.timers_pre.items():
        st['timers'][sh] = {'status': ev(t['status']), 'active': ev(t['_active']), 'deadline': float(ev(t['_deadline']))}
    if S.P is not None:
        st.update({'tr_connected': ev(S.pre['tr.connected']), 'tr_disconnecting': ev(S.pre['tr.disconnecting']),
                   'P_disconnected': ev(S.pre['P.disconnected']), 'rbuf': jval(ev(S.buf)),
                   'fourbytesas': ev(S.pre['P.fourbytesas']),
                   'sent': {k: ev(v) for k, v in S.sent.items()}, 'recv': {k: ev(v) for k, v in S.recv.items()}})
    return st


def heap_view(S, model, effects, updates=None, havoc=None):
    """abstract view of the CURRENT heap under `model` (optionally: pre-state overridden by spec updates)"""
    ev = lambda v: concretize(model, v)
    upd = {}
    hav = set()
    if updates is not None:
        for cont, key, val in updates:
            upd[(id(cont), key)] = val
        hav = set((id(c), k) for c, k in (havoc or []))

    DC = object()

    def rd(cont, key):
        if (id(cont), key) in hav:
            return DC
        if (id(cont), key) in upd:
            return upd[(id(cont), key)]
        return cont.f[key] if isinstance(cont, Obj) else cont[key]

    def val(cont, key):
        v = rd(cont, key)
        if v is DC or isinstance(v, Any) or has_havoc(v):
            return '<dont-care>'
        return ev(v)
    fsm = S.fsm
    v = {'st': val(fsm, 'state'), 'H': val(fsm, 'hold_time'), 'KA': val(fsm, 'keep_alive_time'),
         'allow_auto': val(fsm, 'allow_automatic_start'), 'crc': val(fsm, 'connect_retry_counter'), 'timers': {}}
    P = rd(fsm, 'protocol')
    v['protocol_none'] = P is None
    for sh, t in S.timers.items():
        if '_active' in t.f:
            v['timers'][sh] = {'status': val(t, 'status'), 'active': val(t, '_active'), 'deadline': val(t, '_deadline')}
        else:
            dc = t.f.get('delayed_call')
            act = bool(dc is not None and not dc.f['called'] and not dc.f['cancelled'])
            v['timers'][sh] = {'status': val(t, 'status'), 'active': act,
                               'deadline': (ev(dc.f['time']) if act else '<dont-care>')}
    if S.P is not None:
        v.update({'tr_connected': val(S.transport, 'connected'), 'tr_disconnecting': val(S.transport, 'disconnecting'),
                  'P_disconnected': val(S.P, 'disconnected'), 'rbuf': val(S.P, '_receive_buffer'),
                  'fourbytesas': val(S.P, 'fourbytesas'),
                  'sent': {k: val(S.P.f['msg_sent_stat'], k) for k in S.sent},
                  'recv': {k: val(S.P.f['msg_recv_stat'], k) for k in S.recv}})
    v['n_pending'] = val(S.ghost, 'n_pending')
    v['writes'] = []
    v['lose_calls'] = 0
    v['connects'] = 0
    v['reports'] = []
    for e in effects:
        if e[0] == 'Write':
            if isinstance(e[2], Any):
                v['writes'].append(e[2])
            else:
                v['writes'].append(binascii.b2a_hex(ev(e[2])).decode())
        elif e[0] == 'LoseConnection':
            v['lose_calls'] += 1
        elif e[0] == 'ConnectTCP':
            v['connects'] += 1
        elif e[0] == 'Report':
            v['reports'].append(e[1])
    return v


def has_havoc(v):
    """the value mentions a symbol introduced by a contract's don't-care (havoc): nothing is predicted"""
    t = v.t if isinstance(v, (SNum, SBool)) else None
    if t is None:
        return False
    stack, seen = [t], set()
    while stack:
        e = stack.pop()
        if e.get_id() in seen:
            continue
        seen.add(e.get_id())
        if z3.is_const(e) and e.decl().kind() == z3.Z3_OP_UNINTERPRETED and str(e).startswith(('hvi!', 'hvb!')):
            return True
        if z3.is_app(e):
            stack.extend(e.children())
    return False


def compare_views(exp, obs, path=''):
    """list of 'key: expected X observed Y' (dont-care entries skipped; deadlines compared with tolerance)"""
    diffs = []
    for k, e in exp.items():
        if e == '<dont-care>':
            continue
        o = obs.get(k, '<absent>')
        if isinstance(e, dict):
            if not isinstance(o, dict):
                diffs.append('%s%s: expected %r observed %r' % (path, k, e, o))
            else:
                if k == 'timers':
                    for sh, te in e.items():
                        to = o.get(sh, {})
                        if te['active'] != '<dont-care>' and bool(te['active']) != bool(to.get('active')):
                            diffs.append('%stimers.%s.active: expected %r observed %r' % (path, sh, te['active'], to.get('active')))
                        elif te['active'] is True and te['deadline'] != '<dont-care>' and to.get('deadline') is not None:
                            if abs(float(te['deadline']) - float(to['deadline'])) > 1e-6:
                                diffs.append('%stimers.%s.deadline: expected %r observed %r' % (path, sh, te['deadline'], to['deadline']))
                    continue
                diffs.extend(compare_views(e, o, path + k + '.'))
            continue
        if k == 'rbuf' and isinstance(e, (bytes, bytearray)):
            e = binascii.b2a_hex(e).decode()
        if k == 'writes':
            bad = len(e) != len(o)
            if not bad:
                for a, b in zip(e, o):
                    if isinstance(a, Any):
                        if a.pred is not None:
                            r = a.pred(binascii.a2b_hex(b))
                            r = z3.simplify(r) if z3.is_expr(r) else r
                            if r is False or (z3.is_expr(r) and z3.is_false(r)):
                                bad = True
                    elif a != b:
                        bad = True
            if bad:
                diffs.append('%swrites: expected %r observed %r' % (path, e, o))
            continue
        if isinstance(e, float) or isinstance(o, float):
            try:
                if abs(float(e) - float(o)) > 1e-6:
                    diffs.append('%s%s: expected %r observed %r' % (path, k, e, o))
            except (TypeError, ValueError):
                diffs.append('%s%s: expected %r observed %r' % (path, k, e, o))
            continue
        if isinstance(e, bool) or isinstance(o, bool):
            if bool(e) != bool(o):
                diffs.append('%s%s: expected %r observed %r' % (path, k, e, o))
            continue
        if e != o:
            diffs.append('%s%s: expected %r observed %r' % (path, k, e, o))
    return diffs
