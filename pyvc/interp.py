"""pyvc.interp — forward symbolic execution of real /repo function bodies (Python `ast`).

Nothing from /repo is imported or executed natively here: the AST of the file on disk is what runs.
"""
import ast
import os
import z3

from .values import (SNum, SBool, SBytes, Opaque, OpaqueSeq, Obj, SList, Unsupported, Infeasible, CUR, path,
                     to_term, to_bool_term, mk_num, mk_bool, bytes_eq_branch, fresh_name)

REPO = os.environ.get('VERIF_REPO', '/repo')


# ---------------------------------------------------------------- control-flow signals
class PyExc(Exception):
    """A Python exception propagating in the analysed program; val is an Obj (instance)."""

    def __init__(self, val):
        Exception.__init__(self)
        self.val = val

    def __repr__(self):
        return 'PyExc(%s)' % (self.val,)


class Ret(Exception):
    def __init__(self, v):
        Exception.__init__(self)
        self.v = v


class Brk(Exception):
    pass


class Cont(Exception):
    pass


# ---------------------------------------------------------------- classes / functions / modules
class BCls(object):
    """Built-in (or modelled external) class, mostly exceptions."""

    def __init__(self, name, bases=()):
        self.name = name
        self.bases = list(bases)
        self.attrs = {}
        self.methods = {}
        self.module = None

    def __repr__(self):
        return '<bcls %s>' % self.name

    def mro(self):
        out = [self]
        for b in self.bases:
            for c in b.mro():
                if c not in out:
                    out.append(c)
        return out


def _mk_exc_table():
    t = {}

    def add(name, *bases):
        t[name] = BCls(name, [t[b] for b in bases])
    add('object')
    add('BaseException', 'object')
    add('SystemExit', 'BaseException')
    add('KeyboardInterrupt', 'BaseException')
    add('Exception', 'BaseException')
    add('ArithmeticError', 'Exception')
    add('ZeroDivisionError', 'ArithmeticError')
    add('OverflowError', 'ArithmeticError')
    add('LookupError', 'Exception')
    add('IndexError', 'LookupError')
    add('KeyError', 'LookupError')
    add('TypeError', 'Exception')
    add('ValueError', 'Exception')
    add('UnicodeError', 'ValueError')
    add('UnicodeDecodeError', 'UnicodeError')
    add('AttributeError', 'Exception')
    add('AssertionError', 'Exception')
    add('RuntimeError', 'Exception')
    add('NotImplementedError', 'RuntimeError')
    add('OSError', 'Exception')
    t['IOError'] = t['OSError']
    add('ImportError', 'Exception')
    add('StopIteration', 'Exception')
    add('NameError', 'Exception')
    add('struct.error', 'Exception')
    add('binascii.Error', 'ValueError')
    add('AddrFormatError', 'Exception')
    add('socket.error', 'OSError')
    add('AlreadyCalled', 'ValueError')
    add('AlreadyCancelled', 'ValueError')
    add('JSONDecodeError', 'ValueError')
    add('OpaqueException', 'Exception')      # "some Exception subclass" raised by an unmodelled callee
    return t


BEXC = _mk_exc_table()


def raise_builtin(name, *args):
    raise PyExc(Obj(BEXC[name], {'args': tuple(args)}))


class Cls(object):
    """Class defined in /repo source."""

    def __init__(self, name, module, node):
        self.name = name
        self.module = module
        self.node = node
        self.bases = []
        self.attrs = {}
        self.methods = {}

    def __repr__(self):
        return '<class %s.%s>' % (self.module.name, self.name)

    @property
    def qualname(self):
        return '%s.%s' % (self.module.name, self.name)

    def mro(self):
        out = [self]
        for b in self.bases:
            if isinstance(b, (Cls, BCls)):
                for c in b.mro():
                    if c not in out:
                        out.append(c)
        return out

    def lookup(self, name):
        for c in self.mro():
            if name in c.methods:
                return c.methods[name]
            if name in c.attrs:
                return c.attrs[name]
        return _MISSING


_MISSING = object()


def _bcls_lookup(cls, name):
    for c in cls.mro():
        if name in c.methods:
            return c.methods[name]
        if name in c.attrs:
            return c.attrs[name]
    return _MISSING


def is_subclass(c, target):
    if isinstance(target, tuple):
        return any(is_subclass(c, t) for t in target)
    if isinstance(c, (Cls, BCls)):
        return target in c.mro()
    return False


class Func(object):
    def __init__(self, node, module, cls=None, closure=None):
        self.node = node
        self.module = module
        self.cls = cls
        self.closure = closure
        self.kind = 'function'
        for d in node.decorator_list:
            dn = ast.unparse(d)
            if dn in ('classmethod', 'staticmethod', 'property'):
                self.kind = dn
        self.extra_decorators = [ast.unparse(d) for d in node.decorator_list
                                 if ast.unparse(d) not in ('classmethod', 'staticmethod', 'property')]

    @property
    def qualname(self):
        if self.cls is not None:
            return '%s.%s.%s' % (self.module.name, self.cls.name, self.node.name)
        return '%s.%s' % (self.module.name, self.node.name)

    def __repr__(self):
        return '<func %s>' % self.qualname


class BoundMethod(object):
    def __init__(self, func, self_val):
        self.func = func
        self.self_val = self_val

    def __repr__(self):
        return '<bound %s of %r>' % (self.func, self.self_val)


class Builtin(object):
    """A modelled builtin / library callable: fn(interp, args, kwargs)."""

    def __init__(self, name, fn):
        self.name = name
        self.fn = fn

    def __repr__(self):
        return '<builtin %s>' % self.name


class ExtModule(object):
    """Modelled external module (struct, binascii, netaddr, ...)."""

    def __init__(self, name, attrs=None):
        self.name = name
        self.attrs = attrs or {}

    def __repr__(self):
        return '<extmodule %s>' % self.name


class Super(object):
    def __init__(self, cls, obj):
        self.cls = cls
        self.obj = obj


class Module(object):
    def __init__(self, name, file):
        self.name = name
        self.file = file
        self.tree = None
        self.g = {}
        self.loaded = False

    def __repr__(self):
        return '<module %s>' % self.name


class Program(object):
    """Loads modules of /repo on demand by interpreting their top level (concretely)."""

    def __init__(self, repo=None, models=None):
        self.repo = repo or REPO
        self.modules = {}
        self.models = models          # pyvc.models.Models instance (set by models.install)
        self.contracts = {}           # qualname -> contract callable(interp, func, args, kwargs)
        self.loading = []

    def mod_file(self, name):
        base = os.path.join(self.repo, *name.split('.'))
        if os.path.isdir(base) and os.path.exists(os.path.join(base, '__init__.py')):
            return os.path.join(base, '__init__.py')
        if os.path.exists(base + '.py'):
            return base + '.py'
        return None

    def module(self, name):
        if name in self.modules:
            return self.modules[name]
        f = self.mod_file(name)
        if f is None:
            return None
        m = Module(name, f)
        self.modules[name] = m
        with open(f) as fh:
            m.tree = ast.parse(fh.read(), filename=f)
        m.g['__name__'] = name
        m.g['__file__'] = f
        # top level is run concretely (no path): any symbolic branching is a bug in the loader
        it = Interp(self, concrete=True)
        saved = CUR.path
        CUR.path = None
        try:
            it.run_module(m)
        finally:
            CUR.path = saved
        m.loaded = True
        return m

    def func(self, qual):
        """'yabgp.core.protocol.BGP.parse_buffer' -> Func"""
        parts = qual.split('.')
        for i in range(len(parts), 0, -1):
            m = self.module('.'.join(parts[:i]))
            if m is not None:
                rest = parts[i:]
                break
        else:
            raise KeyError(qual)
        v = m
        for r in rest:
            if isinstance(v, Module):
                v = v.g[r]
            elif isinstance(v, Cls):
                x = v.lookup(r)
                if x is _MISSING:
                    raise KeyError(qual)
                v = x
            else:
                raise KeyError(qual)
        return v


# ---------------------------------------------------------------- the interpreter
class Frame(object):
    def __init__(self, func, env):
        self.func = func
        self.env = env


class Interp(object):
    MAX_DEPTH = 40

    def __init__(self, program, concrete=False, light=False):
        self.prog = program
        self.concrete = concrete
        self.light = light              # light mode: unmodelled operations yield Opaque instead of Unsupported
        self.stack = []
        self.loop_rule = None           # callable(interp, node, env, frame) or None
        self.call_hook = None           # callable(interp, fv, args, kwargs) -> (handled, value)
        self.under_verification = None  # qualname of the function whose body is being verified
        self.inline_only = None
        self.recursion_hook = None
        self.no_contracts = False       # witness mode: the engine interprets the real bodies all the way down
        self.concrete_loops = False
        self.m = program.models

    # ---- path helpers
    @property
    def p(self):
        p = CUR.path
        if p is None:
            raise Unsupported('symbolic operation outside a path (module top level)')
        return p

    def branch(self, c):
        if isinstance(c, bool):
            return c
        return self.p.branch(c)

    def opaque(self, why, kind='any'):
        if not self.light and not self.concrete:
            raise Unsupported(why)
        p = CUR.path
        if p is not None:
            p.opaque_ops += 1
        return Opaque(why, kind)

    def truth(self, v):
        if v is None or v is False:
            return False
        if v is True:
            return True
        if isinstance(v, SBool):
            return self.branch(v.t)
        if isinstance(v, SNum):
            return self.branch(v.t != 0)
        if isinstance(v, SBytes):
            return self.branch(v.len > 0)
        if isinstance(v, OpaqueSeq):
            return self.branch(v.len > 0)
        if isinstance(v, Opaque):
            return self.branch(z3.Bool(fresh_name('opq')))
        if isinstance(v, SList):
            return self.branch(v.len > 0)
        if isinstance(v, (int, float, str, bytes, list, tuple, dict, set, frozenset)):
            return bool(v)
        if isinstance(v, (Obj, Cls, BCls, Func, BoundMethod, Builtin, ExtModule, Module)):
            return True
        t = self.m.truth(self, v)
        if t is not None:
            return t
        raise Unsupported('truth(%s)' % type(v).__name__)

    # ---- modules
    def run_module(self, m):
        env = m.g
        fr = Frame(None, env)
        fr.module = m
        self.stack.append(fr)
        try:
            for s in m.tree.body:
                self.st(s, env)
        finally:
            self.stack.pop()

    @property
    def cur_module(self):
        for fr in reversed(self.stack):
            if getattr(fr, 'module', None) is not None:
                return fr.module
            if fr.func is not None:
                return fr.func.module
        return None

    # ---- expressions
    PURE_NODES = ('BinOp', 'Subscript', 'Compare', 'JoinedStr', 'UnaryOp', 'ListComp', 'GeneratorExp', 'DictComp')

    def ev(self, n, env):
        m = getattr(self, 'e_' + type(n).__name__, None)
        if m is None:
            raise Unsupported('expression %s' % type(n).__name__)
        if self.light and type(n).__name__ in self.PURE_NODES:
            # light mode: a pure operation the value domain cannot express becomes an unknown value (or an Exception)
            try:
                return m(n, env)
            except Unsupported as e:
                return self.opaque_call('unmodelled %s: %s' % (type(n).__name__, e))
        return m(n, env)

    def e_Constant(self, n, env):
        return n.value

    def e_Name(self, n, env):
        return self.lookup_name(n.id, env)

    def lookup_name(self, name, env):
        if name in env and name not in env.get('__global_names__', ()):
            return env[name]
        fr = self.stack[-1] if self.stack else None
        # closures
        f = fr.func if fr else None
        c = f.closure if f is not None else None
        while c is not None:
            if name in c['env']:
                return c['env'][name]
            c = c.get('parent')
        mod = self.cur_module
        if mod is not None and name in mod.g:
            return mod.g[name]
        b = self.m.builtin(name)
        if b is not _MISSING and b is not None:
            return b
        raise_builtin('NameError', name)

    def e_Attribute(self, n, env):
        base = self.ev(n.value, env)
        return self.getattr(base, n.attr)

    def getattr(self, base, attr):
        if isinstance(base, Obj):
            if attr in base.f:
                return base.f[attr]
            cls = base.cls
            if isinstance(cls, (Cls, BCls)):
                v = cls.lookup(attr) if isinstance(cls, Cls) else _bcls_lookup(cls, attr)
                if v is not _MISSING:
                    if isinstance(v, Builtin):
                        return Builtin(v.name, lambda it, a, kw, v=v, base=base: v.fn(it, [base] + list(a), kw))
                    if isinstance(v, Func):
                        if v.kind == 'property':
                            return self.call_func(v, [base], {})
                        if v.kind == 'staticmethod':
                            return v
                        if v.kind == 'classmethod':
                            return BoundMethod(v, cls)
                        return BoundMethod(v, base)
                    return v
            v = self.m.obj_attr(self, base, attr)
            if v is not _MISSING:
                return v
            if isinstance(cls, BCls) and cls.name == 'OpaqueException':
                return Opaque('attribute %s of an unknown exception' % attr)
            raise_builtin('AttributeError', attr)
        if isinstance(base, Cls):
            v = base.lookup(attr)
            if v is not _MISSING:
                if isinstance(v, Func):
                    if v.kind == 'classmethod':
                        return BoundMethod(v, base)
                    return v
                return v
            if attr == '__name__':
                return base.name
            raise_builtin('AttributeError', attr)
        if isinstance(base, BCls):
            v = _bcls_lookup(base, attr)
            if v is not _MISSING:
                return v
            if attr == '__name__':
                return base.name.split('.')[-1]
            raise_builtin('AttributeError', attr)
        if isinstance(base, Module):
            if attr in base.g:
                return base.g[attr]
            sub = self.prog.module(base.name + '.' + attr)
            if sub is not None:
                return sub
            raise_builtin('AttributeError', attr)
        if isinstance(base, ExtModule):
            if attr in base.attrs:
                return base.attrs[attr]
            return self.opaque('%s.%s' % (base.name, attr))
        if isinstance(base, Super):
            return self.super_attr(base, attr)
        if base is None:
            raise_builtin('AttributeError', "'NoneType' object has no attribute '%s'" % attr)
        if isinstance(base, Opaque):
            return self.opaque('attr %s of %s' % (attr, base.why))
        v = self.m.value_attr(self, base, attr)
        if v is not _MISSING:
            return v
        raise Unsupported('getattr(%s, %s)' % (type(base).__name__, attr))

    def super_attr(self, sup, attr):
        cls, obj = sup.cls, sup.obj
        objcls = obj.cls if isinstance(obj, Obj) else obj
        mro = objcls.mro()
        idx = mro.index(cls) if cls in mro else -1
        for c in mro[idx + 1:]:
            if isinstance(c, Cls) and attr in c.methods:
                f = c.methods[attr]
                if f.kind == 'classmethod':
                    return BoundMethod(f, objcls)
                return BoundMethod(f, obj)
        # builtin bases
        if attr == '__init__':
            def binit(it, args, kw, obj=obj):
                if isinstance(obj, Obj):
                    obj.f['args'] = tuple(args)
                return None
            return Builtin('object.__init__', binit)
        if attr == '__setattr__':
            def bset(it, args, kw, obj=obj):
                obj.f[args[0]] = args[1]
                return None
            return Builtin('object.__setattr__', bset)
        raise Unsupported('super().%s' % attr)

    def e_Dict(self, n, env):
        d = {}
        for k, v in zip(n.keys, n.values):
            if k is None:
                d.update(self.ev(v, env))
            else:
                d[self.hashable(self.ev(k, env))] = self.ev(v, env)
        return d

    def hashable(self, k):
        if isinstance(k, (SNum, SBool, SBytes, Opaque)) or type(k).__name__ == 'SStr':
            return self.m.sym_key(self, k)
        if isinstance(k, list):
            raise_builtin('TypeError', 'unhashable type: list')
        return k

    def e_Tuple(self, n, env):
        out = []
        for e in n.elts:
            if isinstance(e, ast.Starred):
                out.extend(self.iterate(self.ev(e.value, env)))
            else:
                out.append(self.ev(e, env))
        return tuple(out)

    def e_List(self, n, env):
        return list(self.e_Tuple(n, env))

    def e_Set(self, n, env):
        return set(self.e_Tuple(n, env))

    def e_JoinedStr(self, n, env):
        parts = []
        for v in n.values:
            if isinstance(v, ast.Constant):
                parts.append(v.value)
            else:
                parts.append(self.m.to_str(self, self.ev(v.value, env)))
        return self.m.str_concat(self, parts)

    def e_IfExp(self, n, env):
        if self.truth(self.ev(n.test, env)):
            return self.ev(n.body, env)
        return self.ev(n.orelse, env)

    def e_Lambda(self, n, env):
        fd = ast.FunctionDef(name='<lambda>', args=n.args, body=[ast.Return(value=n.body)], decorator_list=[],
                             returns=None, type_comment=None)
        ast.copy_location(fd, n)
        ast.fix_missing_locations(fd)
        return self.make_func(fd, env)

    def e_BinOp(self, n, env):
        a = self.ev(n.left, env)
        b = self.ev(n.right, env)
        return self.m.binop(self, type(n.op).__name__, a, b)

    def e_UnaryOp(self, n, env):
        v = self.ev(n.operand, env)
        if isinstance(n.op, ast.Not):
            return not self.truth(v)
        return self.m.unop(self, type(n.op).__name__, v)

    def e_BoolOp(self, n, env):
        if isinstance(n.op, ast.And):
            v = True
            for e in n.values:
                v = self.ev(e, env)
                if not self.truth(v):
                    return v
            return v
        v = False
        for e in n.values:
            v = self.ev(e, env)
            if self.truth(v):
                return v
        return v

    def e_Compare(self, n, env):
        a = self.ev(n.left, env)
        for op, r in zip(n.ops, n.comparators):
            b = self.ev(r, env)
            c = self.m.compare(self, type(op).__name__, a, b)
            if not self.truth(c):
                return False
            a = b
        return True

    def e_Subscript(self, n, env):
        base = self.ev(n.value, env)
        if isinstance(n.slice, ast.Slice):
            lo = self.ev(n.slice.lower, env) if n.slice.lower else None
            hi = self.ev(n.slice.upper, env) if n.slice.upper else None
            st = self.ev(n.slice.step, env) if n.slice.step else None
            return self.m.getslice(self, base, lo, hi, st)
        idx = self.ev(n.slice, env)
        return self.m.getitem(self, base, idx)

    def e_ListComp(self, n, env):
        out = []
        self._comp(n.generators, 0, dict(env), lambda e: out.append(self.ev(n.elt, e)))
        return out

    def e_GeneratorExp(self, n, env):
        return self.e_ListComp(n, env)

    def e_SetComp(self, n, env):
        return set(self.e_ListComp(n, env))

    def e_DictComp(self, n, env):
        out = {}

        def add(e):
            out[self.hashable(self.ev(n.key, e))] = self.ev(n.value, e)
        self._comp(n.generators, 0, dict(env), add)
        return out

    def _comp(self, gens, i, env, emit):
        if i == len(gens):
            emit(env)
            return
        g = gens[i]
        it = self.ev(g.iter, env)
        if isinstance(it, Opaque):
            raise Unsupported('comprehension over opaque value')
        for x in self.iterate(it):
            self.assign(g.target, x, env)
            if all(self.truth(self.ev(c, env)) for c in g.ifs):
                self._comp(gens, i + 1, env, emit)

    def iterate(self, v):
        """python-level iteration over a value with concrete shape"""
        if isinstance(v, (list, tuple)):
            return list(v)
        if isinstance(v, dict):
            return list(v.keys())
        if isinstance(v, (set, frozenset)):
            return sorted(v, key=repr)
        if isinstance(v, range):
            return list(v)
        if isinstance(v, str):
            return list(v)
        if isinstance(v, bytes):
            return list(v)
        r = self.m.iterate(self, v)
        if r is not None:
            return r
        raise Unsupported('iteration over %s' % type(v).__name__)

    def e_Starred(self, n, env):
        raise Unsupported('starred expression')

    def e_Call(self, n, env):
        # special forms
        if isinstance(n.func, ast.Name):
            nm = n.func.id
            if nm == 'super' and nm not in env:
                if n.args:
                    c = self.ev(n.args[0], env)
                    o = self.ev(n.args[1], env)
                    return Super(c, o)
                fr = self.stack[-1]
                return Super(fr.func.cls, env[fr.func.node.args.args[0].arg])
            if nm == 'isinstance' and nm not in env:
                v = self.ev(n.args[0], env)
                return self.m.isinstance_(self, v, n.args[1], env)
        fv = self.ev(n.func, env)
        args = []
        for a in n.args:
            if isinstance(a, ast.Starred):
                args.extend(self.iterate(self.ev(a.value, env)))
            else:
                args.append(self.ev(a, env))
        kw = {}
        for k in n.keywords:
            if k.arg is None:
                kw.update(self.ev(k.value, env))
            else:
                kw[k.arg] = self.ev(k.value, env)
        return self.call(fv, args, kw, node=n)

    # ---- calls
    def call(self, fv, args, kw, node=None):
        if self.call_hook is not None:
            handled, v = self.call_hook(self, fv, args, kw)
            if handled:
                return v
        if isinstance(fv, BoundMethod):
            return self.call_func(fv.func, [fv.self_val] + list(args), kw)
        if isinstance(fv, Func):
            return self.call_func(fv, list(args), kw)
        if isinstance(fv, Builtin):
            if self.light:
                try:
                    return fv.fn(self, list(args), kw)
                except Unsupported as e:
                    return self.opaque_call('unmodelled call of %s: %s' % (fv.name, e))
            return fv.fn(self, list(args), kw)
        if isinstance(fv, Cls):
            return self.instantiate(fv, args, kw)
        if isinstance(fv, BCls):
            return Obj(fv, {'args': tuple(args)})
        if isinstance(fv, Opaque):
            return self.opaque_call('call of %s' % fv.why)
        r = self.m.call_value(self, fv, args, kw)
        if r is not _MISSING:
            return r
        raise Unsupported('call of %s' % type(fv).__name__)

    def opaque_call(self, why):
        """Unknown callee: returns an unknown value or raises some Exception (never SystemExit)."""
        v = self.opaque(why)
        if CUR.path is None:
            return v
        if self.branch(z3.Bool(fresh_name('opq_raises'))):
            raise PyExc(Obj(BEXC['OpaqueException'], {'args': (why,)}))
        return v

    def instantiate(self, cls, args, kw):
        custom = self.m.instantiate(self, cls, args, kw)
        if custom is not _MISSING:
            return custom
        o = Obj(cls)
        init = cls.lookup('__init__')
        if init is not _MISSING and isinstance(init, Func):
            self.call_func(init, [o] + list(args), kw)
        elif args or kw:
            o.f['args'] = tuple(args)
        return o

    def call_func(self, f, args, kw):
        q = f.qualname
        if not self.no_contracts and (q != self.under_verification or (self.stack_has(f) and f.node.name != '__setattr__')):
            c = self.prog.contracts.get(q)
            if c is not None and (self.inline_only is None or q not in self.inline_only):
                return c(self, f, args, kw)
        if self.stack_has(f) and not (f.node.name == '__setattr__' and len(self.stack) < self.MAX_DEPTH):
            if self.recursion_hook is not None:
                return self.recursion_hook(self, f, args, kw)
            raise Unsupported('recursive call of %s' % q)
        if len(self.stack) > self.MAX_DEPTH:
            raise Unsupported('call depth')
        env = self.bind(f, args, kw)
        fr = Frame(f, env)
        self.stack.append(fr)
        try:
            self.run(f.node.body, env)
            return None
        except Ret as r:
            return r.v
        finally:
            self.stack.pop()

    def stack_has(self, f):
        return any(fr.func is not None and fr.func.node is f.node for fr in self.stack)

    def bind(self, f, args, kw):
        a = f.node.args
        env = {}
        params = [x.arg for x in a.posonlyargs + a.args]
        args = list(args)
        kw = dict(kw)
        for i, pn in enumerate(params):
            if i < len(args):
                env[pn] = args[i]
            elif pn in kw:
                env[pn] = kw.pop(pn)
        if len(args) > len(params):
            if a.vararg is None:
                raise_builtin('TypeError', '%s() takes %d positional arguments but %d were given' % (
                    f.node.name, len(params), len(args)))
            env[a.vararg.arg] = tuple(args[len(params):])
        elif a.vararg is not None:
            env[a.vararg.arg] = ()
        # defaults
        nd = len(a.defaults)
        for pn, d in zip(params[len(params) - nd:], a.defaults):
            if pn not in env:
                env[pn] = self.ev_default(f, d)
        for ko, d in zip(a.kwonlyargs, a.kw_defaults):
            if ko.arg in kw:
                env[ko.arg] = kw.pop(ko.arg)
            elif d is not None:
                env[ko.arg] = self.ev_default(f, d)
        if a.kwarg is not None:
            env[a.kwarg.arg] = kw
            kw = {}
        if kw:
            raise_builtin('TypeError', 'unexpected keyword argument %s' % sorted(kw)[0])
        for pn in params:
            if pn not in env:
                raise_builtin('TypeError', 'missing argument %s' % pn)
        return env

    def ev_default(self, f, d):
        fr = Frame(f, {})
        self.stack.append(fr)
        try:
            return self.ev(d, f.module.g if f.closure is None else dict(f.closure['env']))
        finally:
            self.stack.pop()

    def make_func(self, node, env):
        fr = self.stack[-1] if self.stack else None
        parent = fr.func.closure if (fr and fr.func) else None
        if fr is not None and fr.func is not None:
            closure = {'env': env, 'parent': parent}
            f = Func(node, fr.func.module, None, closure)
        else:
            f = Func(node, self.cur_module, None, None)
        return f

    # ---- statements
    def run(self, body, env):
        for s in body:
            self.st(s, env)

    def st(self, s, env):
        m = getattr(self, 's_' + type(s).__name__, None)
        if m is None:
            raise Unsupported('statement %s' % type(s).__name__)
        return m(s, env)

    def assign(self, t, v, env):
        if isinstance(t, ast.Name):
            if t.id in env.get('__global_names__', ()):
                self.cur_module.g[t.id] = v
                if CUR.path is not None:
                    CUR.path.effect('GlobalStore', self.cur_module.name, t.id)
            else:
                env[t.id] = v
        elif isinstance(t, (ast.Tuple, ast.List)):
            vals = self.m.unpack_seq(self, v, len(t.elts))
            for tt, vv in zip(t.elts, vals):
                self.assign(tt, vv, env)
        elif isinstance(t, ast.Subscript):
            base = self.ev(t.value, env)
            if isinstance(t.slice, ast.Slice):
                raise Unsupported('slice assignment')
            self.m.setitem(self, base, self.ev(t.slice, env), v)
        elif isinstance(t, ast.Attribute):
            base = self.ev(t.value, env)
            self.setattr(base, t.attr, v)
        else:
            raise Unsupported('assignment target %s' % type(t).__name__)

    def setattr(self, base, attr, v):
        if isinstance(base, Obj):
            cls = base.cls
            if isinstance(cls, Cls):
                sa = cls.lookup('__setattr__')
                if sa is not _MISSING and isinstance(sa, Func):
                    self.call_func(sa, [base, attr, v], {})
                    return
            if not self.m.obj_setattr(self, base, attr, v):
                base.f[attr] = v
            return
        if isinstance(base, Cls):
            base.attrs[attr] = v
            if CUR.path is not None:
                CUR.path.effect('ClassAttrStore', base.qualname, attr)
            return
        if isinstance(base, Module):
            base.g[attr] = v
            return
        if base is None:
            raise_builtin('AttributeError', "'NoneType' object has no attribute '%s'" % attr)
        if isinstance(base, Opaque):
            self.opaque('store to attribute %s of opaque' % attr)
            return
        if not self.m.value_setattr(self, base, attr, v):
            raise Unsupported('setattr on %s' % type(base).__name__)

    def s_Assign(self, s, env):
        v = self.ev(s.value, env)
        for t in s.targets:
            self.assign(t, v, env)

    def s_AnnAssign(self, s, env):
        if s.value is not None:
            self.assign(s.target, self.ev(s.value, env), env)

    def s_AugAssign(self, s, env):
        t = s.target
        opn = type(s.op).__name__
        if isinstance(t, ast.Name):
            cur = self.lookup_name(t.id, env)
            rhs = self.ev(s.value, env)
            if isinstance(cur, list) and opn == 'Add':
                cur.extend(self.iterate(rhs))
                return
            env[t.id] = self.m.binop(self, opn, cur, rhs)
        elif isinstance(t, ast.Attribute):
            base = self.ev(t.value, env)
            cur = self.getattr(base, t.attr)
            rhs = self.ev(s.value, env)
            self.setattr(base, t.attr, self.m.binop(self, opn, cur, rhs))
        elif isinstance(t, ast.Subscript):
            base = self.ev(t.value, env)
            idx = self.ev(t.slice, env)
            cur = self.m.getitem(self, base, idx)
            rhs = self.ev(s.value, env)
            if isinstance(cur, list) and opn == 'Add':
                cur.extend(self.iterate(rhs))
                return
            self.m.setitem(self, base, idx, self.m.binop(self, opn, cur, rhs))
        else:
            raise Unsupported('augassign target')

    def s_Expr(self, s, env):
        self.ev(s.value, env)

    def s_Pass(self, s, env):
        pass

    def s_Global(self, s, env):
        env.setdefault('__global_names__', set()).update(s.names)

    def s_Return(self, s, env):
        raise Ret(self.ev(s.value, env) if s.value is not None else None)

    def s_Break(self, s, env):
        raise Brk()

    def s_Continue(self, s, env):
        raise Cont()

    def s_Delete(self, s, env):
        for t in s.targets:
            if isinstance(t, ast.Subscript):
                base = self.ev(t.value, env)
                self.m.delitem(self, base, self.ev(t.slice, env))
            elif isinstance(t, ast.Name):
                env.pop(t.id, None)
            else:
                raise Unsupported('del target')

    def s_Assert(self, s, env):
        if not self.truth(self.ev(s.test, env)):
            raise_builtin('AssertionError')

    def s_If(self, s, env):
        if self.truth(self.ev(s.test, env)):
            self.run(s.body, env)
        else:
            self.run(s.orelse, env)

    def s_Import(self, s, env):
        for a in s.names:
            top = a.name.split('.')[0]
            target = a.asname or top
            m = self.resolve_import(a.name if a.asname else top)
            if not a.asname and '.' in a.name:
                self.resolve_import(a.name)
            env[target] = m

    def s_ImportFrom(self, s, env):
        if s.module == '__future__':
            return
        modname = s.module or ''
        if s.level:
            cur = self.cur_module
            pkg = cur.name.split('.')
            if not cur.file.endswith('__init__.py'):
                pkg = pkg[:-1]
            if s.level > 1:
                pkg = pkg[:-(s.level - 1)]
            modname = '.'.join(pkg + ([modname] if modname else []))
        m = self.resolve_import(modname)
        for a in s.names:
            if a.name == '*':
                if isinstance(m, Module):
                    for k, v in m.g.items():
                        if not k.startswith('_'):
                            env[k] = v
                    continue
                raise Unsupported('import * from external module')
            if isinstance(m, Module):
                if a.name in m.g:
                    v = m.g[a.name]
                else:
                    v = self.prog.module(modname + '.' + a.name)
                    if v is None:
                        if m.name in self.prog.loading:
                            raise Unsupported('circular import of %s.%s' % (modname, a.name))
                        raise_builtin('ImportError', a.name)
            else:
                v = self.getattr(m, a.name)
            env[a.asname or a.name] = v

    def resolve_import(self, name):
        m = self.prog.module(name)
        if m is not None:
            return m
        em = self.m.ext_module(name)
        if em is not None:
            return em
        return ExtModule(name)

    def s_FunctionDef(self, s, env):
        f = self.make_func(s, env)
        v = f
        for d in reversed(s.decorator_list):
            dn = ast.unparse(d)
            if dn in ('classmethod', 'staticmethod', 'property'):
                continue
            dv = self.ev(d, env)
            v = self.m.apply_decorator(self, dv, v, dn)
        env[s.name] = v

    def s_ClassDef(self, s, env):
        mod = self.cur_module
        c = Cls(s.name, mod, s)
        for b in s.bases:
            bv = self.ev(b, env)
            c.bases.append(bv)
        if not c.bases:
            c.bases.append(BEXC['object'])
        cenv = {}
        fr = Frame(None, cenv)
        fr.module = mod
        fr.in_class = c
        self.stack.append(fr)
        try:
            for st in s.body:
                if isinstance(st, ast.FunctionDef):
                    f = Func(st, mod, c, None)
                    c.methods[st.name] = f
                    cenv[st.name] = f
                elif isinstance(st, ast.Expr) and isinstance(st.value, ast.Constant):
                    continue
                else:
                    class _E(dict):
                        pass
                    e = _E(cenv)
                    # class body statements see module globals through cur_module lookup
                    self.st(st, e)
                    for k, v in e.items():
                        if k not in cenv or cenv[k] is not v:
                            cenv[k] = v
                            if not isinstance(v, Func) or k not in c.methods:
                                c.attrs[k] = v
        finally:
            self.stack.pop()
        v = c
        for d in reversed(s.decorator_list):
            dv = self.ev(d, env)
            v = self.call(dv, [v], {})
        env[s.name] = v

    def s_Raise(self, s, env):
        if s.exc is None:
            cur = getattr(self, '_handling', None)
            if cur is None:
                raise_builtin('RuntimeError', 'No active exception to reraise')
            raise PyExc(cur)
        v = self.ev(s.exc, env)
        if isinstance(v, (Cls, BCls)):
            v = self.call(v, [], {})
        if isinstance(v, Opaque):
            raise PyExc(Obj(BEXC['OpaqueException'], {'args': (v.why,)}))
        if not isinstance(v, Obj):
            raise Unsupported('raise of %s' % type(v).__name__)
        raise PyExc(v)

    def exc_matches(self, excval, h, env):
        if h.type is None:
            return True
        t = self.ev(h.type, env)
        ts = t if isinstance(t, tuple) else (t,)
        cls = excval.cls
        if isinstance(cls, BCls) and cls.name == 'OpaqueException':
            # unknown Exception subclass: matches `Exception`/BaseException for sure; for a narrower
            # handler it may or may not match
            for x in ts:
                if x in (BEXC['Exception'], BEXC['BaseException']):
                    return True
            if excval.f.get('_not_source_defined') and all(isinstance(x, Cls) for x in ts):
                # raised by a contract that lists yabgp's own exception classes as separate alternatives
                return False
            return self.branch(z3.Bool(fresh_name('opq_exc_match')))
        for x in ts:
            if isinstance(x, Opaque):
                return self.branch(z3.Bool(fresh_name('opq_exc_match')))
            if is_subclass(cls, x):
                return True
        return False

    def s_Try(self, s, env):
        try:
            try:
                self.run(s.body, env)
            except PyExc as e:
                for h in s.handlers:
                    if self.exc_matches(e.val, h, env):
                        if h.name:
                            env[h.name] = e.val
                        saved = getattr(self, '_handling', None)
                        self._handling = e.val
                        try:
                            self.run(h.body, env)
                        finally:
                            self._handling = saved
                        break
                else:
                    raise
            else:
                self.run(s.orelse, env)
        finally:
            # note: a Python-level `finally` also runs for our control-flow signals and Infeasible;
            # running the analysed finalbody on an infeasible/unsupported path is harmless but wasteful
            import sys
            et = sys.exc_info()[0]
            if s.finalbody and (et is None or issubclass(et, (PyExc, Ret, Brk, Cont))):
                self.run(s.finalbody, env)

    def s_With(self, s, env):
        mgrs = []
        for item in s.items:
            cm = self.ev(item.context_expr, env)
            val = self.m.with_enter(self, cm)
            if item.optional_vars is not None:
                self.assign(item.optional_vars, val, env)
            mgrs.append(cm)
        try:
            self.run(s.body, env)
        finally:
            import sys
            et = sys.exc_info()[0]
            if et is None or issubclass(et, (PyExc, Ret, Brk, Cont)):
                for cm in reversed(mgrs):
                    self.m.with_exit(self, cm)

    def s_For(self, s, env):
        it = self.ev(s.iter, env)
        if self.loop_rule is not None:
            r = self.loop_rule(self, s, env, it)
            if r is not _MISSING:
                return
        if isinstance(it, Opaque):
            return self.for_opaque(s, env, it)
        items = self.iterate(it)
        broke = False
        for x in items:
            self.assign(s.target, x, env)
            try:
                self.run(s.body, env)
            except Brk:
                broke = True
                break
            except Cont:
                continue
        if not broke:
            self.run(s.orelse, env)

    def assigned_names(self, body):
        names = set()
        for st in body:
            for n in ast.walk(st):
                if isinstance(n, ast.Name) and isinstance(n.ctx, ast.Store):
                    names.add(n.id)
                elif isinstance(n, ast.AugAssign) and isinstance(n.target, ast.Name):
                    names.add(n.target.id)
        return names

    def mutated_names(self, body):
        """names whose object may be mutated in place (x.append, x[k] = .., x.f = ..)"""
        names = set()
        for st in body:
            for n in ast.walk(st):
                tgt = None
                if isinstance(n, (ast.Subscript, ast.Attribute)) and isinstance(n.ctx, (ast.Store, ast.Del)):
                    tgt = n.value
                elif isinstance(n, ast.AugAssign) and isinstance(n.target, (ast.Subscript, ast.Attribute)):
                    tgt = n.target.value
                elif isinstance(n, ast.Call) and isinstance(n.func, ast.Attribute) and n.func.attr in (
                        'append', 'extend', 'update', 'pop', 'insert', 'remove', 'clear', 'sort', 'reverse',
                        'setdefault', 'add'):
                    tgt = n.func.value
                while isinstance(tgt, (ast.Subscript, ast.Attribute)):
                    tgt = tgt.value
                if isinstance(tgt, ast.Name):
                    names.add(tgt.id)
        return names

    def havoc_value(self, v, why):
        if isinstance(v, OpaqueSeq):
            n = z3.Int(fresh_name('hvn'))
            self.p.assume(n >= 0)
            return OpaqueSeq(n, why, v.kind)
        if isinstance(v, (SBytes, bytes)):
            return SBytes.fresh('hv')
        if isinstance(v, bool) or isinstance(v, SBool):
            return SBool(z3.Bool(fresh_name('hvb')))
        if isinstance(v, (int, SNum)) and not isinstance(v, bool):
            return SNum(z3.Int(fresh_name('hvi')))
        return Opaque(why)

    def for_opaque(self, s, env, it):
        """for-loop over an unknown iterable: havoc what the body assigns, run the body once on an
        arbitrary element (to collect raises / obligations), continue after the loop with havoc'd state.
        Termination: Python for-loops over finite containers terminate (stated assumption)."""
        if not self.light:
            raise Unsupported('for over opaque iterable')
        for nm in self.assigned_names(s.body) | self.mutated_names(s.body):
            if nm in env:
                env[nm] = self.havoc_value(env[nm], 'havoc in for-loop')
        if self.branch(z3.Bool(fresh_name('for_some_iter'))):
            self.assign(s.target, Opaque('element of ' + it.why), env)
            try:
                self.run(s.body, env)
            except (Brk, Cont):
                pass
            except PyExc as e:
                if isinstance(e.val, Obj):
                    e.val.f['_in_abstracted_loop'] = True      # raised for SOME element of the unknown iterable
                raise
            for nm in self.assigned_names(s.body) | self.mutated_names(s.body):
                if nm in env:
                    env[nm] = self.havoc_value(env[nm], 'havoc in for-loop')

    def s_While(self, s, env):
        if self.loop_rule is not None:
            r = self.loop_rule(self, s, env, None)
            if r is not _MISSING:
                return
        if self.concrete_loops:
            n = 0
            broke = False
            while self.truth(self.ev(s.test, env)):
                n += 1
                if n > 20000:
                    raise Unsupported('concrete loop did not finish within 20000 iterations')
                try:
                    self.run(s.body, env)
                except Brk:
                    broke = True
                    break
                except Cont:
                    continue
            if not broke:
                self.run(s.orelse, env)
            return
        # no loop contract: exact only when the loop does not iterate at all on this path
        if not self.truth(self.ev(s.test, env)):
            self.run(s.orelse, env)
            return
        raise Unsupported('while loop without a loop contract (line %d)' % s.lineno)
