"""pyvc.values — symbolic value domain.

Python values that are fully known stay plain Python values.  Symbolic leaves:

  SNum(t)    int (z3 Int) or real (z3 Real; only produced by true division `/` and time.time())
  SBool(t)   bool
  SBytes     (length term, index -> byte term)      — no SMT sequence theory
  SStr       structured string: list of parts (literal str | atom)    (see strings.py)
  Obj        heap object: class + field dict (identity = Python identity)
  Opaque     unknown value (result of an unmodelled operation); every use over-approximates

The engine is a path-at-a-time symbolic executor; the current path is a module global so that value
operations can add lazily-instantiated axioms (byte ranges) and fork.
"""
import itertools
import z3

_ctr = itertools.count()


# Base-256 digit hints: term -> its octets, registered by whoever builds a number as sum(o_k * 256**(w-1-k)) with
# 0 <= o_k <= 255.  Big-endian packing of such a term is then the octets themselves (uniqueness of the base-256
# representation: a stated arithmetic lemma, T4) instead of a chain of div/mod terms the solver must undo.
_DIGITS = {}


def register_digits(term, octs):
    _DIGITS[term.get_id()] = (term, list(octs))
    st = z3.simplify(term)
    _DIGITS[st.get_id()] = (st, list(octs))
    sm = z3.simplify(term, som=True)          # canonical polynomial: (a*256 + b)*65536 + c  ==  a*2^24 + b*2^16 + c
    _DIGITS[sm.get_id()] = (sm, list(octs))


def digits_hint(term, width):
    h = _DIGITS.get(term.get_id()) if z3.is_expr(term) else None
    if h is None and z3.is_expr(term):
        st = z3.simplify(term)
        h = _DIGITS.get(st.get_id())
        term = st
        if h is None:
            sm = z3.simplify(term, som=True)
            h = _DIGITS.get(sm.get_id())
            term = sm
    if h is not None and h[0].eq(term) and len(h[1]) == width:
        return h[1]
    return None


def fresh_name(prefix):
    return '%s!%d' % (prefix, next(_ctr))


def reset_names():
    global _ctr
    _ctr = itertools.count()


class Unsupported(Exception):
    """Construct outside the modelled subset: the *function* becomes UNDECIDED (never a violation)."""


class Infeasible(Exception):
    """Path condition became unsatisfiable / path deliberately cut."""


class LoopCut(Infeasible):
    """end of the arbitrary-iteration path of a loop rule: the path stops here, its obligations count"""


class SNum(object):
    __slots__ = ('t',)

    def __init__(self, t):
        self.t = t

    def __repr__(self):
        return 'SNum(%s)' % (self.t,)

    @property
    def is_real(self):
        return self.t.sort().kind() == z3.Z3_REAL_SORT


class SBool(object):
    __slots__ = ('t',)

    def __init__(self, t):
        self.t = t

    def __repr__(self):
        return 'SBool(%s)' % (self.t,)


class Opaque(object):
    """Unknown value.  kind is a hint ('any', 'str', 'list', 'dict', 'int', 'bytes')."""
    __slots__ = ('why', 'kind')

    def __init__(self, why='', kind='any'):
        self.why = why
        self.kind = kind

    def __repr__(self):
        return 'Opaque(%s)' % self.why


class SymKey(object):
    """a symbolic value used as a dict key: hashes/compares by the text of its terms (syntactic identity);
    semantic equality of symbolic keys is established by obligations when dicts are compared"""
    __slots__ = ('v', 'k')

    def __init__(self, v):
        self.v = v
        self.k = repr(v)

    def __hash__(self):
        return hash(self.k)

    def __eq__(self, o):
        return isinstance(o, SymKey) and o.k == self.k

    def __repr__(self):
        return 'SymKey(%s)' % self.k


class OpaqueSeq(Opaque):
    """Unknown list/tuple whose LENGTH is tracked (term): enough to prove `while xs: ...; xs = xs[k:]` loops."""
    __slots__ = ('len',)

    def __init__(self, ln, why='', kind='list'):
        Opaque.__init__(self, why, kind)
        self.len = ln


class Obj(object):
    """Heap object."""
    _ids = itertools.count(1)

    def __init__(self, cls, fields=None, tag=None):
        self.cls = cls            # Cls (from source) or a string naming a modelled external class
        self.f = dict(fields or {})
        self.tag = tag or ('%s#%d' % (getattr(cls, 'name', cls), next(Obj._ids)))

    def __repr__(self):
        return '<%s>' % self.tag

    @property
    def clsname(self):
        return getattr(self.cls, 'name', self.cls)


# ---------------------------------------------------------------- current path plumbing
class _Cur(object):
    path = None


CUR = _Cur()


def path():
    return CUR.path


def to_term(v):
    """Python/S value -> z3 arithmetic term (Int or Real)."""
    if isinstance(v, SNum):
        return v.t
    if isinstance(v, SBool):
        return z3.If(v.t, z3.IntVal(1), z3.IntVal(0))
    if isinstance(v, bool):
        return z3.IntVal(int(v))
    if isinstance(v, int):
        return z3.IntVal(v)
    if isinstance(v, float):
        return z3.RealVal(repr(v))
    raise Unsupported('to_term(%r)' % (type(v).__name__,))


def to_bool_term(v):
    if isinstance(v, SBool):
        return v.t
    if isinstance(v, bool):
        return z3.BoolVal(v)
    if isinstance(v, SNum):
        return v.t != 0
    if isinstance(v, int):
        return z3.BoolVal(v != 0)
    raise Unsupported('to_bool_term(%r)' % (type(v).__name__,))


def is_sym(v):
    return isinstance(v, (SNum, SBool, SBytes, Opaque)) or type(v).__name__ == 'SStr'


def mk_num(t):
    """Wrap a z3 arithmetic term, folding constants back to Python numbers."""
    t = z3.simplify(t)
    if z3.is_int_value(t):
        return t.as_long()
    if z3.is_rational_value(t) and t.sort().kind() == z3.Z3_REAL_SORT:
        n, d = t.numerator_as_long(), t.denominator_as_long()
        if d == 1:
            return float(n)
        return n / d
    return SNum(t)


def mk_bool(t):
    t = z3.simplify(t)
    if z3.is_true(t):
        return True
    if z3.is_false(t):
        return False
    return SBool(t)


# ---------------------------------------------------------------- bytes
class SBytes(object):
    """bytes as (length term, index->byte term closure).  `fn` is set for fresh input strings."""

    def __init__(self, ln, at, name=None, fn=None):
        self.len = ln if z3.is_expr(ln) else z3.IntVal(ln)
        self._at = at
        self.name = name
        self.fn = fn

    def __repr__(self):
        return 'SBytes(%s,len=%s)' % (self.name or '', self.len)

    def at(self, i):
        if not z3.is_expr(i):
            i = z3.IntVal(i)
        return self._at(i)

    @staticmethod
    def const(b):
        b = bytes(b)

        def at(i, b=b):
            if z3.is_int_value(i):
                k = i.as_long()
                return z3.IntVal(b[k]) if 0 <= k < len(b) else z3.IntVal(0)
            e = z3.IntVal(0)
            for k in range(len(b) - 1, -1, -1):
                e = z3.If(i == k, z3.IntVal(b[k]), e)
            return e
        sb = SBytes(len(b), at)
        sb.concrete = b
        return sb

    @staticmethod
    def fresh(prefix, p=None):
        p = p or path()
        name = fresh_name(prefix)
        f = z3.Function(name, z3.IntSort(), z3.IntSort())
        ln = z3.Int(name + '_len')
        p.assume(ln >= 0)

        def at(i, f=f):
            t = f(i)
            cp = path()
            if cp is not None:
                cp.axiom(z3.And(t >= 0, t <= 255))
            return t
        return SBytes(ln, at, name, f)

    @staticmethod
    def of(v):
        if isinstance(v, SBytes):
            return v
        if isinstance(v, (bytes, bytearray)):
            return SBytes.const(v)
        raise Unsupported('bytes expected, got %s' % type(v).__name__)

    def concat(self, o):
        a, b = self, SBytes.of(o)
        if z3.is_int_value(a.len) and a.len.as_long() == 0:
            return b
        if z3.is_int_value(b.len) and b.len.as_long() == 0:
            return a
        alen = a.len

        def at(i):
            if z3.is_int_value(i) and z3.is_int_value(alen):
                return a.at(i) if i.as_long() < alen.as_long() else b.at(z3.simplify(i - alen))
            return z3.If(i < alen, a.at(i), b.at(i - alen))
        return SBytes(z3.simplify(a.len + b.len), at)

    def norm_index(self, x):
        """python slice-bound normalisation: negative counts from the end, clamp to [0, len]"""
        n = self.len
        if isinstance(x, int) and not isinstance(x, bool):
            if x >= 0:
                if z3.is_int_value(n):
                    return z3.IntVal(min(x, n.as_long()))
                return z3.If(n < x, n, z3.IntVal(x))
            return z3.If(n + x < 0, z3.IntVal(0), n + x)
        t = to_term(x)
        return z3.If(t < 0, z3.If(n + t < 0, z3.IntVal(0), n + t), z3.If(t > n, n, t))

    def slice(self, lo, hi):
        a = self
        lo_c = z3.simplify(self.norm_index(lo)) if lo is not None else z3.IntVal(0)
        hi_c = z3.simplify(self.norm_index(hi)) if hi is not None else a.len
        ln = z3.simplify(z3.If(hi_c > lo_c, hi_c - lo_c, z3.IntVal(0)))

        def at(i):
            return a.at(z3.simplify(i + lo_c))
        return SBytes(ln, at)

    def known_len(self):
        return self.len.as_long() if z3.is_int_value(self.len) else None

    def be_int(self, off, width):
        """big-endian unsigned integer of `width` octets at offset `off` (term)"""
        off = off if z3.is_expr(off) else z3.IntVal(off)
        v = z3.IntVal(0)
        for k in range(width):
            v = v * 256 + self.at(z3.simplify(off + k))
        return z3.simplify(v)


def bytes_eq_term(a, b, skolem_prefix='k'):
    """Term stating a == b for byte strings, for use in GOAL position only when both are symbolic
    (uses a Skolem index: sound for proving, the negation is what the solver refutes)."""
    A, B = SBytes.of(a), SBytes.of(b)
    la, lb = A.known_len(), B.known_len()
    if la is not None and lb is not None:
        if la != lb:
            return z3.BoolVal(False)
        return z3.And([A.at(i) == B.at(i) for i in range(la)] + [z3.BoolVal(True)])
    n = lb if lb is not None else la
    if n is not None and n <= 64:
        other = A if lb is not None else B
        konst = B if lb is not None else A
        return z3.And([other.len == n] + [other.at(i) == konst.at(i) for i in range(n)])
    k = z3.Int(fresh_name(skolem_prefix))
    return z3.And(A.len == B.len, z3.Implies(z3.And(k >= 0, k < A.len), A.at(k) == B.at(k)))


def bytes_eq_branch(a, b):
    """a == b usable in either polarity (branch conditions): needs one side of known length."""
    A, B = SBytes.of(a), SBytes.of(b)
    la, lb = A.known_len(), B.known_len()
    if la is None and lb is None:
        raise Unsupported('equality of two symbolic-length byte strings in a branch condition')
    if la is not None and lb is not None:
        if la != lb:
            return z3.BoolVal(False)
        return z3.And([A.at(i) == B.at(i) for i in range(la)] + [z3.BoolVal(True)])
    n = la if la is not None else lb
    return z3.And([A.len == n, B.len == n] + [A.at(i) == B.at(i) for i in range(n)])


# ---------------------------------------------------------------- symbolic-length lists (fold rules)
class SList(object):
    """A list of unknown length whose elements are described by `elem(i)`; only touched by fold rules."""

    def __init__(self, ln, elem, name=None):
        self.len = ln
        self.elem = elem
        self.name = name
