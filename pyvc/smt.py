"""pyvc.smt — discharging obligations: z3 (Python API, process pool) first, cvc5 binary on unknowns
(and on everything in the thorough tier)."""
import os
import subprocess
import tempfile
import time
import multiprocessing as mp
import z3

Z3_TIMEOUT_MS = int(os.environ.get('VERIF_Z3_TIMEOUT_MS', '150000'))     # last resort budget
Z3_FAST_MS = int(os.environ.get('VERIF_Z3_FAST_MS', '20000'))            # first pass; cvc5 takes what this leaves open
CVC5_TIMEOUT_S = int(os.environ.get('VERIF_CVC5_TIMEOUT_S', '240'))
CVC5 = '/usr/bin/cvc5'


def to_smt2(facts, goal):
    s = z3.Solver()
    for f in facts:
        s.add(f)
    s.add(z3.Not(goal))
    return s.to_smt2()


def _solve_z3(job):
    idx, text, timeout_ms, seed = job
    t0 = time.time()
    try:
        ctx = z3.Context()
        s = z3.Solver(ctx=ctx)
        s.set('timeout', timeout_ms)
        if seed:
            s.set('random_seed', seed)
        s.from_string(text)
        r = s.check()
        res = str(r)
        reason = s.reason_unknown() if r == z3.unknown else ''
    except Exception as e:          # solver crash -> undecided, never a verdict
        res, reason = 'error', repr(e)
    return idx, res, time.time() - t0, reason


def _solve_cvc5(job):
    idx, text, timeout_s = job
    t0 = time.time()
    # z3's to_smt2 omits set-logic; cvc5 needs one
    body = '(set-logic ALL)\n' + '\n'.join(l for l in text.splitlines() if not l.startswith('(set-info'))
    fd, path = tempfile.mkstemp(suffix='.smt2', dir=os.environ.get('TMPDIR', '/tmp'))
    try:
        with os.fdopen(fd, 'w') as fh:
            fh.write(body)
        try:
            out = subprocess.run([CVC5, '--lang=smt2', '--tlimit=%d' % (timeout_s * 1000), path],
                                 capture_output=True, text=True, timeout=timeout_s + 10)
            first = (out.stdout.strip().splitlines() or ['error'])[0]
            res = first if first in ('sat', 'unsat', 'unknown') else 'error'
            reason = '' if res != 'error' else (out.stdout + out.stderr)[:300]
        except subprocess.TimeoutExpired:
            res, reason = 'unknown', 'timeout'
    finally:
        try:
            os.unlink(path)
        except OSError:
            pass
    return idx, res, time.time() - t0, reason


class Verdict(object):
    __slots__ = ('ob', 'result', 'backend', 'time_s', 'reason', 'model')

    def __init__(self, ob):
        self.ob = ob
        self.result = None      # 'unsat' (discharged) | 'sat' (refuted) | 'unknown' | 'error'
        self.backend = None
        self.time_s = 0.0
        self.reason = ''
        self.model = None


_POOL = None


def pool():
    global _POOL
    if _POOL is None:
        n = int(os.environ.get('VERIF_JOBS', '0')) or min(16, os.cpu_count() or 4)
        _POOL = mp.get_context('fork').Pool(n)
    return _POOL


def close_pool():
    global _POOL
    if _POOL is not None:
        _POOL.terminate()
        _POOL = None


def discharge(obligations, cvc5_all=False, seed=0, parallel=True, grouped=True):
    """-> list of Verdict (same order).  Obligations recorded at the same point of the same path share
    their facts: they are first tried as one conjunction (one query); only a group that is not discharged
    as a whole is split into its members (so that the failing clause can be named)."""
    if grouped and len(obligations) > 8:
        groups = {}
        for i, ob in enumerate(obligations):
            groups.setdefault((ob.path_id, len(ob.facts), id(ob.facts[-1]) if ob.facts else 0), []).append(i)
        from .paths import Obligation
        gobs, gidx, rest = [], [], []
        for key, idxs in groups.items():
            if len(idxs) < 2:
                rest.extend(idxs)
                continue
            first = obligations[idxs[0]]
            if any(len(obligations[j].facts) != len(first.facts) for j in idxs):
                rest.extend(idxs)
                continue
            gobs.append(Obligation('group', first.facts, z3.And([obligations[j].goal for j in idxs]), None, first.path_id))
            gidx.append(idxs)
        verdicts = [None] * len(obligations)
        gver = discharge(gobs, cvc5_all, seed, parallel, grouped=False)
        for gv, idxs in zip(gver, gidx):
            if gv.result == 'unsat':
                for j in idxs:
                    v = Verdict(obligations[j])
                    v.result, v.backend, v.time_s = 'unsat', gv.backend, gv.time_s / len(idxs)
                    verdicts[j] = v
            else:
                rest.extend(idxs)
        rver = discharge([obligations[j] for j in rest], cvc5_all, seed, parallel, grouped=False)
        for j, v in zip(rest, rver):
            verdicts[j] = v
        return verdicts
    verdicts = [Verdict(ob) for ob in obligations]
    jobs = []
    texts = {}
    for i, ob in enumerate(obligations):
        g = z3.simplify(ob.goal)
        if z3.is_true(g):
            verdicts[i].result, verdicts[i].backend = 'unsat', 'syntactic'
            continue
        text = to_smt2(ob.facts, ob.goal)
        texts[i] = text
        jobs.append((i, text, Z3_FAST_MS, seed))
    if jobs:
        if parallel and len(jobs) > 3:
            results = pool().map(_solve_z3, jobs, chunksize=max(1, len(jobs) // 64))
        else:
            results = [_solve_z3(j) for j in jobs]
        for idx, res, t, reason in results:
            v = verdicts[idx]
            v.result, v.backend, v.time_s, v.reason = res, 'z3', t, reason
    # cvc5: on unknown/error, and on everything when asked
    cjobs = [(i, texts[i], CVC5_TIMEOUT_S) for i in texts
             if cvc5_all or verdicts[i].result in ('unknown', 'error')]
    if cjobs:
        if parallel and len(cjobs) > 1:
            cres = pool().map(_solve_cvc5, cjobs)
        else:
            cres = [_solve_cvc5(j) for j in cjobs]
        for idx, res, t, reason in cres:
            v = verdicts[idx]
            if v.result in ('unknown', 'error'):
                if res in ('sat', 'unsat'):
                    v.result, v.backend, v.reason = res, 'cvc5', ''
                v.time_s += t
            else:
                # cross-check: a disagreement between the solvers is reported as undecided
                if res in ('sat', 'unsat') and res != v.result:
                    v.reason = 'solver disagreement: z3=%s cvc5=%s' % (v.result, res)
                    v.result = 'unknown'
                    v.backend = 'z3+cvc5'
                elif res in ('sat', 'unsat'):
                    v.backend = 'z3+cvc5'
                v.time_s += t
    # last resort: what both solvers left open gets z3 again with the long budget
    ljobs = [(i, texts[i], Z3_TIMEOUT_MS, seed + 1) for i in texts if verdicts[i].result in ('unknown', 'error')
             and 'disagreement' not in (verdicts[i].reason or '')]
    if ljobs:
        lres = pool().map(_solve_z3, ljobs) if (parallel and len(ljobs) > 1) else [_solve_z3(j) for j in ljobs]
        for idx, res, t, reason in lres:
            v = verdicts[idx]
            v.time_s += t
            if res in ('sat', 'unsat'):
                v.result, v.backend, v.reason = res, 'z3', ''
    return verdicts


def model_for(ob, seed=0):
    """re-solve a refuted obligation in-process to get a model object"""
    s = z3.Solver()
    s.set('timeout', Z3_TIMEOUT_MS)
    for f in ob.facts:
        s.add(f)
    s.add(z3.Not(ob.goal))
    if s.check() == z3.sat:
        return s.model()
    return None


def path_model(path):
    """a model of the path condition (witness that the path is feasible)"""
    s = z3.Solver()
    s.set('timeout', Z3_TIMEOUT_MS)
    for f in path.facts:
        s.add(f)
    if s.check() == z3.sat:
        return s.model()
    return None
