"""pyvc.methods — builtin functions and methods of builtin types."""
import z3

from .values import (SNum, SBool, SBytes, Opaque, OpaqueSeq, Obj, SList, Unsupported, to_term, to_bool_term, mk_num, mk_bool,
                     fresh_name)
from .interp import (PyExc, raise_builtin, BEXC, BCls, Cls, Func, BoundMethod, Builtin, ExtModule, Module,
                     _MISSING, is_subclass)
from . import strings as S
from .strings import SStr, Atom


def B(name):
    def deco(fn):
        return Builtin(name, fn)
    return deco


def install_builtins(M):
    from .models import TypeRef, isnum, is_bytes, is_str, all_concrete, NetIP
    b = M.builtins

    for tn in ('object', 'type'):
        b[tn] = TypeRef(tn)
    for name, c in BEXC.items():
        if '.' not in name and name not in ('object',):
            b[name] = c

    def f_len(it, a, kw):
        v = a[0]
        if isinstance(v, SBytes):
            return mk_num(v.len)
        if isinstance(v, (list, tuple, dict, str, bytes, bytearray, set, frozenset, range)):
            return len(v)
        if isinstance(v, SList):
            return mk_num(v.len)
        if isinstance(v, OpaqueSeq):
            return mk_num(v.len)
        if isinstance(v, Opaque):
            n = SNum(z3.Int(fresh_name('opqlen')))
            it.p.assume(n.t >= 0)
            it.opaque('len of opaque')
            return n
        if isinstance(v, SStr):
            return sstr_len(it, v)
        if isinstance(v, Obj):
            r = M.obj_len(it, v) if hasattr(M, 'obj_len') else _MISSING
            if r is not _MISSING:
                return r
        raise_builtin('TypeError', 'object of type %s has no len()' % type(v).__name__)
    b['len'] = Builtin('len', f_len)

    def sstr_len(it, v):
        n = 0
        terms = []
        for p in v.parts:
            if isinstance(p, str):
                n += len(p)
            elif p.kind == 'hex':
                terms.append(2 * p.t.len)
            elif p.kind == 'hexint' and p.extra == ('', 'x'):
                # number of hex digits of a non-negative integer: decided per path (forks over the digit count)
                n += it.p.concretize(M.hexdigits_term(p.t), limit=40, what='hex digit count')
            else:
                raise Unsupported('len of structured string with %s atom' % p.kind)
        return mk_num(z3.IntVal(n) + sum(terms))

    def f_ord(it, a, kw):
        v = a[0]
        if isinstance(v, str):
            if len(v) != 1:
                raise_builtin('TypeError', 'ord() expected a character')
            return ord(v)
        if isinstance(v, (bytes, bytearray)):
            if len(v) != 1:
                raise_builtin('TypeError', 'ord() expected a character')
            return v[0]
        if isinstance(v, SBytes):
            if not it.branch(v.len == 1):
                raise_builtin('TypeError', 'ord() expected a character')
            return mk_num(v.at(0))
        if isinstance(v, Opaque):
            return it.opaque_call('ord of opaque')
        raise_builtin('TypeError', 'ord() expected string of length 1')
    b['ord'] = Builtin('ord', f_ord)

    def f_chr(it, a, kw):
        v = a[0]
        if isinstance(v, int):
            try:
                return chr(v)
            except ValueError:
                raise_builtin('ValueError', 'chr() arg not in range')
        raise Unsupported('chr of symbolic')
    b['chr'] = Builtin('chr', f_chr)

    def f_int(it, a, kw):
        if not a:
            return 0
        v = a[0]
        base = a[1] if len(a) > 1 else kw.get('base', 10)
        if isinstance(v, Opaque):
            return it.opaque_call('int of opaque')
        if isinstance(v, NetIP):
            return v.value
        if isinstance(v, bool):
            return int(v)
        if isinstance(v, SBool):
            return mk_num(to_term(v))
        if isinstance(v, int):
            return v
        if isinstance(v, float):
            return int(v)
        if isinstance(v, SNum):
            if not v.is_real:
                return v
            # truncation toward zero
            if it.branch(v.t >= 0):
                return mk_num(z3.ToInt(v.t))
            return mk_num(-z3.ToInt(-v.t))
        if isinstance(v, (str, bytes)):
            try:
                return int(v, base)
            except ValueError:
                raise_builtin('ValueError', 'invalid literal for int()')
        if isinstance(v, SStr):
            r = S.to_int(it, v, base)
            if r is None:
                raise_builtin('ValueError', 'invalid literal for int()')
            return r
        if isinstance(v, HexBytes) and base == 16:
            n = v.src.known_len()
            if n is None:
                if it.light:
                    # hex digits of an unknown-length string: an unknown non-negative integer, or ValueError for ''
                    if it.branch(v.src.len == 0):
                        raise_builtin('ValueError', 'invalid literal for int() with base 16')
                    r = SNum(z3.Int(fresh_name('hexval')))
                    it.p.assume(r.t >= 0)
                    return r
                n = it.p.concretize(v.src.len, limit=40, what='int(hex) length')
            if n == 0:
                raise_builtin('ValueError', 'invalid literal for int() with base 16')
            return mk_num(v.src.be_int(0, n))
        if isinstance(v, SBytes):
            raise Unsupported('int() of symbolic bytes')
        raise_builtin('TypeError', 'int() argument must be a string or a number')
    b['int'] = Builtin('int', f_int)
    b['long'] = b['int']

    def f_float(it, a, kw):
        v = a[0]
        if isinstance(v, (int, float)):
            return float(v)
        if isinstance(v, str):
            try:
                return float(v)
            except ValueError:
                raise_builtin('ValueError', 'could not convert string to float')
        if isinstance(v, SNum):
            return v if v.is_real else mk_num(z3.ToReal(v.t))
        if isinstance(v, Opaque):
            return it.opaque_call('float of opaque')
        raise Unsupported('float(%s)' % type(v).__name__)
    b['float'] = Builtin('float', f_float)

    def f_str(it, a, kw):
        if not a:
            return ''
        if len(a) > 1 or kw:
            v = a[0]
            if isinstance(v, (bytes, bytearray)):
                return bytes(v).decode(*a[1:], **kw)
            raise Unsupported('str(bytes, encoding) on symbolic')
        return M.to_str(it, a[0])
    b['str'] = Builtin('str', f_str)
    b['unicode'] = b['str']

    b['repr'] = Builtin('repr', lambda it, a, kw: M.to_repr(it, a[0]))

    def f_bool(it, a, kw):
        if not a:
            return False
        return it.truth(a[0])
    b['bool'] = Builtin('bool', f_bool)

    def f_hex(it, a, kw):
        v = a[0]
        if isinstance(v, int):
            return hex(v)
        if isinstance(v, SNum):
            return SStr(['0x', Atom('hexint', v.t, ('', 'x'))]) if it.branch(v.t >= 0) else _unsup('hex of negative')
        if isinstance(v, NetIP):
            return f_hex(it, [v.value], {})
        raise_builtin('TypeError', 'hex() of non-integer')
    b['hex'] = Builtin('hex', f_hex)

    def _unsup(msg):
        raise Unsupported(msg)

    def f_bin(it, a, kw):
        if isinstance(a[0], int):
            return bin(a[0])
        raise Unsupported('bin of symbolic')
    b['bin'] = Builtin('bin', f_bin)

    def f_abs(it, a, kw):
        v = a[0]
        if isinstance(v, (int, float)):
            return abs(v)
        if isinstance(v, SNum):
            return mk_num(z3.If(v.t >= 0, v.t, -v.t))
        raise Unsupported('abs')
    b['abs'] = Builtin('abs', f_abs)

    def minmax(is_min):
        def f(it, a, kw):
            vals = list(a) if len(a) > 1 else it.iterate(a[0])
            if not vals:
                raise_builtin('ValueError', 'empty sequence')
            if all(isinstance(v, (int, float)) and not isinstance(v, bool) for v in vals):
                return min(vals) if is_min else max(vals)
            if all(isnum(v) for v in vals):
                cur = vals[0]
                for v in vals[1:]:
                    c = M.compare(it, 'Lt' if is_min else 'Gt', v, cur)
                    if isinstance(c, bool):
                        cur = v if c else cur
                    else:
                        tc, tv = to_term(cur), to_term(v)
                        if tc.sort().kind() != tv.sort().kind():
                            tc = z3.ToReal(tc) if tc.sort().kind() != z3.Z3_REAL_SORT else tc
                            tv = z3.ToReal(tv) if tv.sort().kind() != z3.Z3_REAL_SORT else tv
                        cur = mk_num(z3.If(c.t, tv, tc))
                return cur
            if all_concrete(vals):
                try:
                    return min(vals) if is_min else max(vals)
                except TypeError:
                    raise_builtin('TypeError', 'unorderable')
            raise Unsupported('min/max over %r' % [type(v).__name__ for v in vals])
        return f
    b['min'] = Builtin('min', minmax(True))
    b['max'] = Builtin('max', minmax(False))

    def f_sum(it, a, kw):
        acc = a[1] if len(a) > 1 else 0
        for v in it.iterate(a[0]):
            acc = M.binop(it, 'Add', acc, v)
        return acc
    b['sum'] = Builtin('sum', f_sum)

    def f_sorted(it, a, kw):
        v = a[0]
        if isinstance(v, Opaque):
            return it.opaque('sorted of opaque', 'list')
        items = it.iterate(v)
        if kw.get('key') is not None:
            keys = [it.call(kw['key'], [x], {}) for x in items]
        else:
            keys = items
        if not all_concrete(keys):
            raise Unsupported('sorted over symbolic keys')
        try:
            order = sorted(range(len(items)), key=lambda i: keys[i], reverse=bool(kw.get('reverse', False)))
        except TypeError:
            raise_builtin('TypeError', 'unorderable types in sorted()')
        return [items[i] for i in order]
    b['sorted'] = Builtin('sorted', f_sorted)

    def f_list(it, a, kw):
        if not a:
            return []
        v = a[0]
        if isinstance(v, OpaqueSeq):
            return OpaqueSeq(v.len, v.why, 'list')
        if isinstance(v, Opaque):
            return it.opaque('list of opaque', 'list')
        if isinstance(v, SStr):
            raise Unsupported('list() of structured string')
        return list(it.iterate(v))
    b['list'] = Builtin('list', f_list)
    def _conv(ctor):
        def f(it, a, kw):
            if not a:
                return ctor()
            r = f_list(it, a, kw)
            if isinstance(r, Opaque):
                return r
            try:
                return ctor(r)
            except TypeError:
                raise_builtin('TypeError', 'unhashable type')
        return f
    b['tuple'] = Builtin('tuple', _conv(tuple))
    b['set'] = Builtin('set', _conv(set))
    b['frozenset'] = Builtin('frozenset', _conv(frozenset))

    def f_dict(it, a, kw):
        d = {}
        if a:
            v = a[0]
            if isinstance(v, dict):
                d.update(v)
            elif isinstance(v, Opaque):
                return it.opaque('dict of opaque', 'dict')
            else:
                for kv in it.iterate(v):
                    k, x = M.unpack_seq(it, kv, 2)
                    d[it.hashable(k)] = x
        d.update(kw)
        return d
    b['dict'] = Builtin('dict', f_dict)

    def f_range(it, a, kw):
        if all(isinstance(x, int) for x in a):
            try:
                return range(*a)
            except ValueError as e:
                raise_builtin('ValueError', str(e))
        if it.light and any(isinstance(x, (SNum, Opaque)) for x in a):
            return it.opaque('range with a symbolic bound', 'range')
        vals = []
        for x in a:
            if isinstance(x, SNum):
                vals.append(it.p.concretize(x.t, limit=300, what='range bound'))
            elif isinstance(x, int):
                vals.append(x)
            else:
                raise_builtin('TypeError', 'range() integer argument expected')
        try:
            return range(*vals)
        except ValueError as e:
            raise_builtin('ValueError', str(e))
    b['range'] = Builtin('range', f_range)
    b['xrange'] = b['range']

    b['enumerate'] = Builtin('enumerate', lambda it, a, kw: [
        (i + (a[1] if len(a) > 1 else kw.get('start', 0)), x) for i, x in enumerate(it.iterate(a[0]))])
    b['zip'] = Builtin('zip', lambda it, a, kw: [tuple(t) for t in zip(*[it.iterate(x) for x in a])])
    b['reversed'] = Builtin('reversed', lambda it, a, kw: list(reversed(it.iterate(a[0]))))
    b['map'] = Builtin('map', lambda it, a, kw: [it.call(a[0], [x], {}) for x in it.iterate(a[1])])
    b['filter'] = Builtin('filter', lambda it, a, kw: [x for x in it.iterate(a[1]) if it.truth(
        it.call(a[0], [x], {}) if a[0] is not None else x)])
    b['any'] = Builtin('any', lambda it, a, kw: any(it.truth(x) for x in it.iterate(a[0])))
    b['all'] = Builtin('all', lambda it, a, kw: all(it.truth(x) for x in it.iterate(a[0])))
    b['print'] = Builtin('print', lambda it, a, kw: None)
    b['id'] = Builtin('id', lambda it, a, kw: id(a[0]))
    b['callable'] = Builtin('callable', lambda it, a, kw: isinstance(a[0], (Func, BoundMethod, Builtin, Cls, BCls)))
    b['iter'] = Builtin('iter', lambda it, a, kw: list(it.iterate(a[0])))

    def f_type(it, a, kw):
        v = a[0]
        if isinstance(v, Obj):
            return v.cls
        for n, pred in (('bool', lambda x: isinstance(x, (bool, SBool))),
                        ('int', lambda x: isinstance(x, int) or (isinstance(x, SNum) and not x.is_real)),
                        ('float', lambda x: isinstance(x, float) or isinstance(x, SNum)),
                        ('str', is_str), ('bytes', lambda x: isinstance(x, (bytes, SBytes))),
                        ('list', lambda x: isinstance(x, list)), ('tuple', lambda x: isinstance(x, tuple)),
                        ('dict', lambda x: isinstance(x, dict)), ('NoneType', lambda x: x is None)):
            if pred(v):
                return b.get(n) if n in b else TypeRef(n)
        if isinstance(v, Opaque):
            return it.opaque('type of opaque')
        raise Unsupported('type(%s)' % type(v).__name__)
    b['type'] = Builtin('type', f_type)
    for tn in ('int', 'str', 'bool', 'float', 'list', 'tuple', 'dict', 'set', 'bytes', 'bytearray', 'frozenset'):
        # callable type objects: keep the Builtin for calling, but isinstance/type() need identity:
        fn = b.get(tn)
        tr = TypeRef(tn)
        tr.fn = fn.fn if fn is not None else None
        b[tn] = tr
    # bytes()/bytearray() constructors

    def f_bytes(it, a, kw):
        if not a:
            return b''
        v = a[0]
        if isinstance(v, (bytes, bytearray)):
            return bytes(v)
        if isinstance(v, SBytes):
            return v
        if isinstance(v, int):
            return bytes(v)
        if isinstance(v, str):
            return v.encode(*(a[1:] or ['utf-8']))
        if isinstance(v, (list, tuple)):
            if all(isinstance(x, int) for x in v):
                try:
                    return bytes(v)
                except ValueError:
                    raise_builtin('ValueError', 'bytes must be in range(0, 256)')
            out = SBytes.const(b'')
            for x in v:
                t = to_term(x)
                if not it.branch(z3.And(t >= 0, t <= 255)):
                    raise_builtin('ValueError', 'bytes must be in range(0, 256)')
                out = out.concat(SBytes(1, lambda i, t=t: t))
            return out
        raise Unsupported('bytes(%s)' % type(v).__name__)
    b['bytes'].fn = f_bytes
    b['bytearray'].fn = f_bytes

    def f_getattr(it, a, kw):
        try:
            return it.getattr(a[0], a[1])
        except PyExc as e:
            if len(a) > 2 and is_subclass(e.val.cls, BEXC['AttributeError']):
                return a[2]
            raise
    b['getattr'] = Builtin('getattr', f_getattr)

    def f_hasattr(it, a, kw):
        try:
            it.getattr(a[0], a[1])
            return True
        except PyExc as e:
            if is_subclass(e.val.cls, BEXC['AttributeError']):
                return False
            raise
    b['hasattr'] = Builtin('hasattr', f_hasattr)
    b['setattr'] = Builtin('setattr', lambda it, a, kw: it.setattr(a[0], a[1], a[2]))

    def f_round(it, a, kw):
        if all(isinstance(x, (int, float)) for x in a):
            return round(*a)
        raise Unsupported('round of symbolic')
    b['round'] = Builtin('round', f_round)

    def f_divmod(it, a, kw):
        return (M.binop(it, 'FloorDiv', a[0], a[1]), M.binop(it, 'Mod', a[0], a[1]))
    b['divmod'] = Builtin('divmod', f_divmod)

    def f_pow(it, a, kw):
        return M.binop(it, 'Pow', a[0], a[1])
    b['pow'] = Builtin('pow', f_pow)

    def f_issubclass(it, a, kw):
        return is_subclass(a[0], a[1])
    b['issubclass'] = Builtin('issubclass', f_issubclass)

    def f_open(it, a, kw):
        return M.open_file(it, a, kw)
    b['open'] = Builtin('open', f_open)
    b['True'] = True
    b['False'] = False
    b['None'] = None
    b['NotImplemented'] = Opaque('NotImplemented')
    b['__name__'] = '__verif__'


# make TypeRef callable through Models.call_value
def _typeref_call(M):
    pass


# ---------------------------------------------------------------- methods of plain values
def value_attr(M, it, base, attr):
    from .models import isnum, is_bytes, is_str, all_concrete, NetIP, TypeRef

    def bm(fn):
        return Builtin('%s.%s' % (type(base).__name__, attr), fn)

    if isinstance(base, TypeRef):
        if base.name == 'dict' and attr == 'fromkeys':
            return bm(lambda it, a, kw: {k: (a[1] if len(a) > 1 else None) for k in it.iterate(a[0])})
        if base.name == 'int' and attr == 'from_bytes':
            def fb(it, a, kw):
                order = a[1] if len(a) > 1 else kw.get('byteorder', 'big')
                if order != 'big':
                    raise Unsupported('int.from_bytes little endian')
                v = a[0]
                if isinstance(v, (bytes, bytearray)):
                    return int.from_bytes(v, 'big')
                n = v.known_len()
                if n is None:
                    n = it.p.concretize(v.len, limit=40, what='from_bytes length')
                return mk_num(v.be_int(0, n))
            return bm(fb)
        if base.name == 'bytes' and attr == 'decode':
            def bdec(it, a, kw):
                v = a[0]
                if isinstance(v, (bytes, bytearray)):
                    return bytes(v).decode(*a[1:], **kw)
                if isinstance(v, SBytes):
                    if it.branch(v.len == 0):
                        return ''
                    if it.light:
                        return it.opaque_call('decode of symbolic bytes')
                    raise Unsupported('bytes.decode of non-empty symbolic bytes')
                raise_builtin('TypeError', "descriptor 'decode' requires a bytes object")
            return bm(bdec)
        if base.name in ('bytes', 'bytearray') and attr == 'fromhex':
            def fromhex(it, a, kw):
                if isinstance(a[0], str):
                    return bytes.fromhex(a[0])
                if isinstance(a[0], SStr):
                    return M.unhexlify_sstr(it, a[0])        # bytearray is treated as bytes (never mutated in /repo)
                return _unsupported('fromhex')
            return bm(fromhex)
        raise Unsupported('%s.%s' % (base.name, attr))

    if isinstance(base, dict):
        d = base
        if attr == 'get':
            def get(it, a, kw):
                k = a[0]
                default = a[1] if len(a) > 1 else kw.get('default')
                if isinstance(k, Opaque):
                    return it.opaque('dict.get(opaque)')
                if isinstance(k, (SNum, SBool)):
                    for kk in d:
                        if isnum(kk) and it.branch(to_term(k) == to_term(kk)):
                            return d[kk]
                    return default
                if isinstance(k, (SStr, SBytes)):
                    for kk in d:
                        if it.truth(M.equal(it, k, kk)):
                            return d[kk]
                    return default
                try:
                    return d.get(k, default)
                except TypeError:
                    raise_builtin('TypeError', 'unhashable type')
            return bm(get)
        if attr == 'keys':
            return bm(lambda it, a, kw: list(d.keys()))
        if attr == 'values':
            return bm(lambda it, a, kw: list(d.values()))
        if attr == 'items':
            return bm(lambda it, a, kw: [(k, v) for k, v in d.items()])
        if attr == 'iteritems':
            raise_builtin('AttributeError', 'iteritems')
        if attr == 'update':
            def upd(it, a, kw):
                if a:
                    if isinstance(a[0], dict):
                        d.update(a[0])
                    elif isinstance(a[0], Opaque):
                        it.opaque('dict.update(opaque)')
                    else:
                        for kv in it.iterate(a[0]):
                            k, x = M.unpack_seq(it, kv, 2)
                            d[it.hashable(k)] = x
                d.update(kw)
            return bm(upd)
        if attr == 'pop':
            def pop(it, a, kw):
                k = it.hashable(a[0])
                if k in d:
                    return d.pop(k)
                if len(a) > 1:
                    return a[1]
                raise_builtin('KeyError', k)
            return bm(pop)
        if attr == 'setdefault':
            def sd(it, a, kw):
                k = it.hashable(a[0])
                if k not in d:
                    d[k] = a[1] if len(a) > 1 else None
                return d[k]
            return bm(sd)
        if attr == 'copy':
            return bm(lambda it, a, kw: dict(d))
        if attr == 'clear':
            return bm(lambda it, a, kw: d.clear())
        if attr == '__contains__':
            return bm(lambda it, a, kw: M.contains(it, d, a[0]))
        if attr == '__iter__':
            return bm(lambda it, a, kw: list(d.keys()))
        if attr == 'has_key':
            raise_builtin('AttributeError', 'has_key')
        raise_builtin('AttributeError', "'dict' object has no attribute '%s'" % attr)

    if isinstance(base, list):
        L = base
        if attr == 'append':
            return bm(lambda it, a, kw: L.append(a[0]))
        if attr == 'extend':
            return bm(lambda it, a, kw: L.extend(it.iterate(a[0])))
        if attr == 'insert':
            return bm(lambda it, a, kw: L.insert(a[0], a[1]))
        if attr == 'pop':
            def pop(it, a, kw):
                try:
                    return L.pop(*a)
                except IndexError:
                    raise_builtin('IndexError', 'pop from empty list')
            return bm(pop)
        if attr == 'reverse':
            return bm(lambda it, a, kw: L.reverse())
        if attr == 'sort':
            def sort(it, a, kw):
                r = it.call(M.builtins['sorted'], [list(L)], kw)
                L[:] = r
            return bm(sort)
        if attr == 'index':
            def index(it, a, kw):
                for i, x in enumerate(L):
                    if it.truth(M.equal(it, x, a[0])):
                        return i
                raise_builtin('ValueError', 'not in list')
            return bm(index)
        if attr == 'count':
            def count(it, a, kw):
                return sum(1 for x in L if it.truth(M.equal(it, x, a[0])))
            return bm(count)
        if attr == 'remove':
            def remove(it, a, kw):
                for i, x in enumerate(L):
                    if it.truth(M.equal(it, x, a[0])):
                        del L[i]
                        return
                raise_builtin('ValueError', 'list.remove(x): x not in list')
            return bm(remove)
        if attr == 'copy':
            return bm(lambda it, a, kw: list(L))
        if attr == 'clear':
            return bm(lambda it, a, kw: L.clear())
        if attr == '__iter__':
            return bm(lambda it, a, kw: list(L))
        raise_builtin('AttributeError', "'list' object has no attribute '%s'" % attr)

    if isinstance(base, tuple):
        if attr == 'index':
            return value_attr(M, it, list(base), 'index')
        if attr == 'count':
            return value_attr(M, it, list(base), 'count')
        if attr == '__iter__':
            return bm(lambda it, a, kw: list(base))
        raise_builtin('AttributeError', "'tuple' object has no attribute '%s'" % attr)

    if isinstance(base, (set, frozenset)):
        if attr == 'add':
            return bm(lambda it, a, kw: base.add(a[0]))
        if attr == 'update':
            return bm(lambda it, a, kw: base.update(it.iterate(a[0])))
        if attr in ('union', 'intersection', 'difference', 'issubset', 'issuperset'):
            return bm(lambda it, a, kw: getattr(base, attr)(set(it.iterate(a[0]))))
        raise_builtin('AttributeError', attr)

    if isinstance(base, str):
        s = base
        if attr in ('lower', 'upper', 'strip', 'lstrip', 'rstrip', 'title', 'capitalize', 'isdigit', 'isalpha',
                    'startswith', 'endswith', 'find', 'rfind', 'count', 'zfill', 'rjust', 'ljust', 'encode',
                    'splitlines', 'rsplit', 'partition', 'rpartition', 'isalnum', 'isupper', 'islower', 'index',
                    'center', 'swapcase', 'isspace', 'expandtabs'):
            def m(it, a, kw):
                if not all_concrete(a):
                    if attr in ('startswith', 'endswith', 'find', 'count'):
                        raise Unsupported('str.%s with symbolic argument' % attr)
                    raise Unsupported('str.%s symbolic arg' % attr)
                try:
                    return getattr(s, attr)(*a, **kw)
                except (TypeError, ValueError, UnicodeError, LookupError) as e:
                    raise_builtin(type(e).__name__ if type(e).__name__ in BEXC else 'ValueError', str(e))
            return bm(m)
        if attr == 'split':
            def split(it, a, kw):
                if not all_concrete(a):
                    raise Unsupported('split symbolic sep')
                try:
                    return s.split(*a, **kw)
                except (TypeError, ValueError) as e:
                    raise_builtin(type(e).__name__, str(e))
            return bm(split)
        if attr == 'replace':
            def repl(it, a, kw):
                if all_concrete(a):
                    return s.replace(*a)
                raise Unsupported('replace symbolic')
            return bm(repl)
        if attr == 'join':
            def join(it, a, kw):
                items = it.iterate(a[0]) if not isinstance(a[0], Opaque) else None
                if items is None:
                    return it.opaque('join of opaque', 'str')
                for x in items:
                    if not is_str(x):
                        if isinstance(x, Opaque):
                            return it.opaque('join of opaque', 'str')
                        raise_builtin('TypeError', 'sequence item: expected str instance')
                parts = []
                for i, x in enumerate(items):
                    if i:
                        parts.append(s)
                    parts.append(x)
                return S.concat(parts)
            return bm(join)
        if attr == 'format':
            def fmt(it, a, kw):
                if all_concrete(a) and all_concrete(kw) and not any(isinstance(x, Obj) for x in a):
                    try:
                        return s.format(*a, **kw)
                    except (IndexError, KeyError, ValueError) as e:
                        raise_builtin(type(e).__name__, str(e))
                # simple positional {} / {0} only
                out = []
                i = 0
                auto = 0
                while i < len(s):
                    if s[i] == '{':
                        j = s.index('}', i)
                        fld = s[i + 1:j]
                        if fld == '':
                            out.append(M.to_str(it, a[auto]))
                            auto += 1
                        elif fld.isdigit():
                            out.append(M.to_str(it, a[int(fld)]))
                        elif fld in kw:
                            out.append(M.to_str(it, kw[fld]))
                        else:
                            raise Unsupported('format field %r' % fld)
                        i = j + 1
                    else:
                        out.append(s[i])
                        i += 1
                return S.concat(out)
            return bm(fmt)
        if attr == 'decode':
            raise_builtin('AttributeError', "'str' object has no attribute 'decode'")
        if attr == '__iter__':
            return bm(lambda it, a, kw: list(s))
        raise_builtin('AttributeError', "'str' object has no attribute '%s'" % attr)

    if isinstance(base, SStr):
        s = base
        if attr == 'split':
            def split(it, a, kw):
                if not a:
                    raise Unsupported('split() on whitespace of structured string')
                return S.split(s, a[0], a[1] if len(a) > 1 else -1)
            return bm(split)
        if attr in ('strip', 'lstrip', 'rstrip'):
            def strip(it, a, kw):
                # atoms never start/end with whitespace: only literal ends can be stripped
                if a:
                    raise Unsupported('strip(chars) of structured string')
                parts = list(s.parts)
                if attr in ('strip', 'lstrip') and isinstance(parts[0], str):
                    parts[0] = parts[0].lstrip()
                if attr in ('strip', 'rstrip') and isinstance(parts[-1], str):
                    parts[-1] = parts[-1].rstrip()
                for p in (parts[0], parts[-1]):
                    if isinstance(p, Atom) and p.kind in ('opq', 'reprbytes'):
                        raise Unsupported('strip of opaque text')
                return S.concat(parts)
            return bm(strip)
        if attr in ('lower', 'upper'):
            def case(it, a, kw):
                parts = []
                for p in s.parts:
                    if isinstance(p, str):
                        parts.append(getattr(p, attr)())
                    elif p.kind in ('dec', 'ip4') or (p.kind in ('hex', 'ip6') and attr == 'lower') or (
                            p.kind == 'mac' and attr == 'upper'):
                        parts.append(p)
                    else:
                        raise Unsupported('%s of %s atom' % (attr, p.kind))
                return S.concat(parts)
            return bm(case)
        if attr == 'encode':
            def enc(it, a, kw):
                a0 = s.single_atom()
                if a0 is not None and a0.kind == 'hex':
                    return HexBytes(a0.t)
                raise Unsupported('encode of structured string')
            return bm(enc)
        if attr == 'startswith':
            def sw(it, a, kw):
                pre = a[0]
                if isinstance(pre, str) and isinstance(s.parts[0], str) and len(s.parts[0]) >= len(pre):
                    return s.parts[0].startswith(pre)
                if isinstance(pre, str) and isinstance(s.parts[0], Atom):
                    al = S.ALPHABET.get(s.parts[0].kind)
                    if al is not None and pre and pre[0] not in al:
                        return False
                raise Unsupported('startswith on structured string')
            return bm(sw)
        if attr == 'isdigit':
            def isd(it, a, kw):
                if all(isinstance(p, Atom) and p.kind == 'dec' for p in s.parts):
                    return True
                if any(isinstance(p, str) and not p.isdigit() for p in s.parts):
                    return False
                if any(isinstance(p, Atom) and p.kind in ('ip4', 'mac') for p in s.parts):
                    return False
                raise Unsupported('isdigit of structured string')
            return bm(isd)
        if attr == 'replace':
            def repl(it, a, kw):
                old, new = a[0], a[1]
                if not (isinstance(old, str) and isinstance(new, str)):
                    raise Unsupported('replace with symbolic args')
                parts = []
                for p in s.parts:
                    if isinstance(p, str):
                        parts.append(p.replace(old, new))
                    else:
                        al = S.ALPHABET.get(p.kind)
                        if al is None or any(c in al for c in old):
                            raise Unsupported('replace through %s atom' % p.kind)
                        parts.append(p)
                return S.concat(parts)
            return bm(repl)
        if attr == 'format' or attr == 'join':
            raise Unsupported('SStr.%s' % attr)
        raise Unsupported('method %s of structured string' % attr)

    if isinstance(base, (bytes, bytearray)):
        bb = bytes(base)
        if attr == 'decode':
            def dec(it, a, kw):
                try:
                    return bb.decode(*a, **kw)
                except UnicodeDecodeError as e:
                    raise_builtin('UnicodeDecodeError', str(e))
            return bm(dec)
        if attr in ('hex', 'startswith', 'endswith', 'find', 'count', 'strip', 'lstrip', 'rstrip', 'split', 'upper',
                    'lower', 'replace', 'isdigit', 'rjust', 'ljust', 'zfill', 'index'):
            def m(it, a, kw):
                if not all_concrete(a):
                    raise Unsupported('bytes.%s symbolic arg' % attr)
                try:
                    return getattr(bb, attr)(*a, **kw)
                except (TypeError, ValueError) as e:
                    raise_builtin(type(e).__name__, str(e))
            return bm(m)
        if attr == 'join':
            def join(it, a, kw):
                out = b''
                for i, x in enumerate(it.iterate(a[0])):
                    if i:
                        out = M.binop(it, 'Add', out, bb)
                    out = M.binop(it, 'Add', out, x)
                return out
            return bm(join)
        if attr == 'encode':
            raise_builtin('AttributeError', "'bytes' object has no attribute 'encode'")
        raise_builtin('AttributeError', "'bytes' object has no attribute '%s'" % attr)

    if isinstance(base, SBytes):
        sb = base
        if attr == 'decode':
            def dec(it, a, kw):
                if isinstance(sb, HexBytes):
                    return S.hexs(sb.src)
                if it.light:
                    return it.opaque_call('decode of symbolic bytes')
                raise Unsupported('decode of symbolic bytes')
            return bm(dec)
        if attr == 'hex':
            return bm(lambda it, a, kw: S.hexs(sb))
        if attr == 'encode':
            raise_builtin('AttributeError', "'bytes' object has no attribute 'encode'")
        raise Unsupported('method %s of symbolic bytes' % attr)

    if isinstance(base, (int, float, SNum, SBool)):
        if attr == 'bit_length' and isinstance(base, int):
            return bm(lambda it, a, kw: base.bit_length())
        if attr == 'to_bytes':
            def tb(it, a, kw):
                n = a[0] if a else kw['length']
                order = a[1] if len(a) > 1 else kw.get('byteorder', 'big')
                if order != 'big' or not isinstance(n, int):
                    raise Unsupported('to_bytes')
                return M.struct_pack_int(it, base, n)
            return bm(tb)
        if attr in ('real', 'numerator'):
            return base
        if attr == 'is_integer' and isinstance(base, float):
            return bm(lambda it, a, kw: base.is_integer())
        raise_builtin('AttributeError', "'%s' object has no attribute '%s'" % (
            'int' if isinstance(base, (int, SBool)) or not getattr(base, 'is_real', False) else 'float', attr))

    if isinstance(base, (Func, BoundMethod, Builtin)):
        if attr == '__name__':
            return base.node.name if isinstance(base, Func) else (
                base.func.node.name if isinstance(base, BoundMethod) else base.name)
        if attr == '__doc__':
            return None
        raise Unsupported('function attribute %s' % attr)

    if isinstance(base, BCls):
        if attr == '__name__':
            return base.name.split('.')[-1]
        raise_builtin('AttributeError', attr)

    if isinstance(base, range):
        raise_builtin('AttributeError', attr)
    r = M.lib_value_attr(it, base, attr)
    if r is not _MISSING:
        return r
    return _MISSING


def _unsupported(msg):
    raise Unsupported(msg)


class HexBytes(SBytes):
    """b2a_hex(src): ASCII hex digits of src.  Kept symbolic as a whole; .decode() gives the hex SStr,
    int(_, 16) gives the big-endian value; individual octets are the hex digit codes."""

    def __init__(self, src):
        self.src = src
        ln = z3.simplify(src.len * 2)

        def at(i):
            byte = src.at(z3.simplify(i / 2))
            nib = z3.If(i % 2 == 0, byte / 16, byte % 16)
            return z3.If(nib < 10, nib + 48, nib + 87)
        SBytes.__init__(self, ln, at)
