"""pyvc.driver — runs the verification units of a property, discharges obligations, triages refutations
(known-finding regions / new violations), replays counter-models and path witnesses on the real code,
writes the evidence file and decides the exit code.

Exit codes: 0 held (known findings printed) · 1 violation (VIOLATION line) · 3 checker failure.
Undecided obligations (solver unknown, construct outside the subset) are never violations.
"""
import json
import os
import re
import sys
import time
import traceback
import z3
from . import contracts as _C

from . import smt
from .contracts import verify, VerifyResult
from .values import Unsupported
from . import replay as RP

VERIF = os.path.dirname(os.path.dirname(os.path.abspath(__file__)))
KNOWN_FILE = os.path.join(VERIF, 'known_findings.jsonl')
EVID_DIR = os.path.join(VERIF, 'evidence')
REPLAY_DIR = os.path.join(EVID_DIR, 'replays')


class Unit(object):
    """one function of /repo verified against one spec"""

    def __init__(self, name, qual, build, spec, kind='session', receiver=None, method=None, props=(),
                 clause_props=None, verify_kw=None, request=None, expected=None, doc='', witness_cap=None):
        self.name = name
        self.qual = qual
        self.build = build
        self.spec = spec
        self.kind = kind
        self.receiver = receiver
        self.method = method
        self.props = tuple(props)
        self.clause_props = clause_props
        self.verify_kw = verify_kw or {}
        self.request = request        # (outcome, model) -> native request dict   (non-session kinds)
        self.expected = expected      # (outcome, model, native_out) -> list of diffs
        self.doc = doc
        self.witness_cap = witness_cap
        self.result = None
        self.verdicts = None

    def props_of(self, ob_name):
        if self.clause_props is None:
            return set(self.props)
        r = self.clause_props(ob_name)
        return set(self.props) if r is None else set(r)


class Lemma(object):
    """a closed obligation over spec functions (no code): name, builder() -> [(name, facts, goal)]"""

    def __init__(self, name, builder, props=(), doc=''):
        self.name = name
        self.builder = builder
        self.props = tuple(props)
        self.doc = doc


def load_known():
    out = []
    if os.path.exists(KNOWN_FILE):
        for line in open(KNOWN_FILE):
            line = line.strip()
            if not line or line.startswith('#'):
                continue
            out.append(json.loads(line))
    return out


def consts_of(exprs):
    """name -> z3 const for every uninterpreted constant in the expressions"""
    seen = set()
    out = {}
    stack = list(exprs)
    while stack:
        e = stack.pop()
        if e.get_id() in seen:
            continue
        seen.add(e.get_id())
        if z3.is_const(e) and e.decl().kind() == z3.Z3_OP_UNINTERPRETED:
            out[str(e)] = e
        elif z3.is_app(e):
            stack.extend(e.children())
        elif z3.is_quantifier(e):
            stack.append(e.body())
    return out


REGION_ENV = {'And': z3.And, 'Or': z3.Or, 'Not': z3.Not, 'Implies': z3.Implies, 'If': z3.If, 'True': True,
              'False': False}


def region_term(region, consts):
    """evaluate a region predicate (python expression over named pre-state constants) to a z3 Bool.
    A constant the region mentions that does not occur in this obligation makes the region not apply."""
    names = set(re.findall(r'[A-Za-z_][A-Za-z_0-9]*', region)) - set(REGION_ENV) - {'in', 'and', 'or', 'not'}
    env = dict(REGION_ENV)
    for n in names:
        if n not in consts:
            return None
        env[n] = consts[n]
    try:
        r = eval(region, {'__builtins__': {}}, env)
    except Exception:
        return None
    if isinstance(r, bool):
        return z3.BoolVal(r)
    return r


class Finding(object):
    def __init__(self, unit, verdict, prop):
        self.unit = unit
        self.verdict = verdict
        self.prop = prop
        self.status = None       # 'violation' | 'known'
        self.known_id = None
        self.model = None
        self.replay = None


def triage(unit, verdict, prop, known):
    """refuted obligation -> Finding (known if every counter-model lies in a listed open region)"""
    ob = verdict.ob
    fd = Finding(unit, verdict, prop)
    entries = [k for k in known if k.get('status') == 'open' and k.get('property') == prop and
               k.get('function') == unit.qual and re.search(k.get('obligation', '.*'), ob.name)]
    consts = consts_of(list(ob.facts) + [ob.goal])
    regions = []
    for k in entries:
        t = region_term(k['region'], consts)
        if t is not None:
            regions.append((k, t))
    s = z3.Solver()
    s.set('timeout', smt.Z3_TIMEOUT_MS)
    for f in ob.facts:
        s.add(f)
    s.add(z3.Not(ob.goal))
    if regions:
        s.push()
        s.add(z3.Not(z3.Or([t for _, t in regions])))
        r = s.check()
        if r == z3.unsat:
            s.pop()
            # inside the listed regions: find which one (first satisfiable)
            for k, t in regions:
                s.push()
                s.add(t)
                if s.check() == z3.sat:
                    fd.status, fd.known_id, fd.model = 'known', k['id'], s.model()
                    s.pop()
                    return fd
                s.pop()
            fd.status, fd.known_id = 'known', regions[0][0]['id']
            return fd
        if r == z3.sat:
            fd.status, fd.model = 'violation', s.model()
            s.pop()
            return fd
        s.pop()
    if s.check() == z3.sat:
        fd.model = s.model()
    fd.status = 'violation'
    return fd


# ---------------------------------------------------------------- session replay
def session_replay(unit, outcome, model):
    """-> (request, expected_view) for a path of a session-kind unit under a model"""
    S = outcome.extra['ctx']
    sp = outcome.extra['spec']
    args = [RP.jval(RP.concretize(model, a)) for a in outcome.extra['args'][1:]]
    req = {'kind': 'session', 'receiver': unit.receiver, 'method': unit.method, 'args': args,
           'state': RP.session_state_request(S, model), 'cpu_s': 5.0}
    mat = getattr(unit, 'materialise', None)
    if mat is not None:
        req = mat(unit, outcome, model, req)
    elif uses_oracles(outcome):
        return None          # inputs of an ASSUMED abstract contract cannot be synthesised generically
    return req


def uses_oracles(outcome):
    for f in outcome.path.facts:
        if 'ora!' in str(f):
            return True
    return False


def session_expected(unit, outcome, model):
    """the spec's post-view under the model (pre-state + spec updates; don't-cares skipped)"""
    S = outcome.extra['ctx']
    sp = outcome.extra['spec']
    # pre-state heap: we cannot read it from the (mutated) heap; the spec updates were computed on the
    # pre-state, and untouched fields are read from the recorded pre snapshot
    pre_updates = pre_state_updates(S)
    upd = pre_updates + list(sp.updates)
    return RP.heap_view(S, model, sp.effects, updates=upd, havoc=sp.havoc)


def pre_state_updates(S):
    """(cont, key, pre-value) for every abstract field, so that a view can be computed for the pre-state
    even after the body has mutated the heap"""
    out = []
    f = S.fsm
    pre = S.pre
    out += [(f, 'state', pre['st']), (f, 'hold_time', pre['H']), (f, 'keep_alive_time', pre['KA']),
            (f, 'allow_automatic_start', pre['allow_auto']), (f, 'connect_retry_counter', pre['crc']),
            (f, 'protocol', pre['fsm.protocol'])]
    for sh, t in S.timers.items():
        out += [(t, 'status', pre[sh + '.status']), (t, '_active', pre[sh + '.active']),
                (t, '_deadline', pre[sh + '.deadline'])]
    if S.P is not None:
        out += [(S.transport, 'connected', pre['tr.connected']), (S.transport, 'disconnecting', pre['tr.disconnecting']),
                (S.P, 'disconnected', pre['P.disconnected']), (S.P, '_receive_buffer', pre['P.buffer']),
                (S.P, 'fourbytesas', pre['P.fourbytesas'])]
        for k in S.sent:
            out.append((S.P.f['msg_sent_stat'], k, pre['sent.' + k]))
            out.append((S.P.f['msg_recv_stat'], k, pre['recv.' + k]))
    return out


def concrete_session_run(prog, unit, req):
    """the ENGINE as an interpreter: the real bodies (no contracts, loops executed) on the concrete request;
    returns (outcome kind, exception class name, view)"""
    from .paths import Path
    from .values import CUR
    from .interp import Interp, PyExc
    from .session import Session
    st = req['state']
    p = Path([], [])
    saved = CUR.path
    CUR.path = p
    try:
        it = Interp(prog)
        it.no_contracts = True
        it.concrete_loops = True
        S = Session(it, with_protocol=bool(st.get('with_protocol', True)), values=st)
        recv = {'fsm': S.fsm, 'peering': S.peering, 'protocol': S.P}[req['receiver']]

        def robj(a):
            if isinstance(a, dict) and 'obj' in a:
                k = a['obj']
                if k == 'P':
                    return S.P
                from .values import Obj
                return Obj(k, {kk: vv for kk, vv in a.items() if kk != 'obj'})
            return RP.unj(a)
        args = [robj(a) for a in req.get('args', [])]
        if req['method'] in ('buildProtocol', 'clientConnectionFailed'):
            S.ghost.f['n_pending'] = S.ghost.f['n_pending'] - 1
        f = prog.func(unit.qual)
        kind, exc = 'return', None
        try:
            it.call_func(f, [recv] + args, {})
        except PyExc as e:
            kind, exc = 'raise', e.val.clsname
        return kind, exc, RP.heap_view(S, None, p.effects)
    finally:
        CUR.path = saved


def observed_inv_failures(prog, req, view):
    """dual-mode use of the invariant: evaluate every Inv clause on the post-state OBSERVED on the real code"""
    from .paths import Path
    from .values import CUR
    from .interp import Interp
    from .session import Session
    import z3 as _z3
    st = dict(req['state'])
    for k in ('st', 'H', 'KA', 'allow_auto', 'crc', 'tr_connected', 'tr_disconnecting', 'P_disconnected', 'n_pending'):
        if k in view:
            st[k] = view[k]
    st['timers'] = {sh: {'status': t['status'], 'active': t['active'],
                         'deadline': t['deadline'] if t['deadline'] is not None else 0.0}
                    for sh, t in view.get('timers', {}).items()}
    if view.get('protocol_none'):
        st['with_protocol'] = False
    p = Path([], [])
    saved = CUR.path
    CUR.path = p
    try:
        it = Interp(prog)
        S = Session(it, with_protocol=bool(st.get('with_protocol', True)), values=st)
        # witness-mode sessions carry concrete timers: give them the abstract fields the invariant reads
        for sh, t in S.timers.items():
            tv = st['timers'].get(sh, {})
            t.f['_active'] = bool(tv.get('active'))
            t.f['_deadline'] = float(tv.get('deadline') or 0.0)
        from contracts.session import inv_terms
        bad = []
        for n, t in inv_terms(S.fsm):
            r = _z3.simplify(t) if _z3.is_expr(t) else t
            if (_z3.is_expr(r) and _z3.is_false(r)) or r is False:
                bad.append(n)
        return bad
    finally:
        CUR.path = saved


def session_predicted(unit, outcome, model):
    """the ENGINE's post-view under the model (final symbolic heap + recorded effects)"""
    S = outcome.extra['ctx']
    eff = outcome.path.effects[outcome.extra['eff0']:]
    return RP.heap_view(S, model, eff)


# ---------------------------------------------------------------- running a property
class Run(object):
    def __init__(self, prop, tier='quick', seed=0):
        self.prop = prop
        self.tier = tier
        self.seed = seed
        self.t0 = time.time()
        self.units = []
        self.lemmas = []
        self.findings = []
        self.undecided = []
        self.engine_mismatches = []
        self.n_obl = 0
        self.n_dis = 0
        self.backends = {}
        self.solver_time = 0.0
        self.paths = 0
        self.witnesses = 0
        self.witness_ok = 0
        self.samples = []
        self.notes = []
        self.assumptions = []
        self.trusted = []
        self.functions = []
        self.functions_bounded = []
        self.bounded = None
        self.bounded_violations = []     # [(name, doc)] failing inputs found by a bounded native stand-in
        self.known_hit = {}
        self.vacuity = {'ensures_false_refuted': 0, 'units': 0}

    # -- verification units
    def run_unit(self, unit, prog):
        self.prog = prog
        t0 = time.time()
        try:
            res = verify(prog, unit.qual, unit.build, unit.spec, name=unit.name, **unit.verify_kw)
        except Unsupported as e:
            res = VerifyResult(unit.qual)
            res.unsupported.append(str(e))
        unit.result = res
        relevant = [ob for ob in res.obligations if self.prop in unit.props_of(ob.name)]
        unit.relevant = relevant
        verdicts = smt.discharge(relevant, cvc5_all=(self.tier == 'thorough'), seed=self.seed)
        unit.verdicts = verdicts
        unit.wall = time.time() - t0
        self.units.append(unit)
        self.paths += res.paths
        if unit.qual not in self.functions:
            self.functions.append(unit.qual)
        for v in verdicts:
            self.n_obl += 1
            self.solver_time += v.time_s
            self.backends[v.backend] = self.backends.get(v.backend, 0) + 1
            if v.result == 'unsat':
                self.n_dis += 1
        for u in res.unsupported:
            self.undecided.append({'unit': unit.name, 'why': 'outside the modelled subset: ' + u})
        return unit

    def vacuity_check(self, unit):
        """`ensures False` must be refutable: at least one feasible non-cut path with a satisfiable path
        condition (otherwise a contradictory precondition would 'prove' everything)."""
        self.vacuity['units'] += 1
        for o in unit.result.outcomes:
            if o.kind in ('return', 'raise'):
                m = smt.path_model(o.path)
                if m is not None:
                    self.vacuity['ensures_false_refuted'] += 1
                    return True
        self.engine_mismatches.append({'unit': unit.name, 'what': 'vacuous: no feasible path (ensures False not refuted)'})
        return False

    def run_lemma(self, lemma):
        from .paths import Obligation
        obs = [Obligation('%s/%s' % (lemma.name, n), facts, goal) for (n, facts, goal) in lemma.builder()]
        verdicts = smt.discharge(obs, cvc5_all=(self.tier == 'thorough'), seed=self.seed)
        lemma.verdicts = verdicts
        self.lemmas.append(lemma)
        for v in verdicts:
            self.n_obl += 1
            self.solver_time += v.time_s
            self.backends[v.backend] = self.backends.get(v.backend, 0) + 1
            if v.result == 'unsat':
                self.n_dis += 1
            elif v.result == 'sat':
                fd = Finding(lemma, v, self.prop)
                fd.status = 'violation'
                fd.model = smt.model_for(v.ob)
                self.findings.append(fd)
            else:
                self.undecided.append({'unit': lemma.name, 'obligation': v.ob.name, 'why': v.result + ' ' + v.reason})

    def triage_all(self, known):
        for unit in self.units:
            by_path = {}
            for v in unit.verdicts:
                if v.result == 'sat':
                    fd = triage(unit, v, self.prop, known)
                    self.findings.append(fd)
                elif v.result != 'unsat':
                    self.undecided.append({'unit': unit.name, 'obligation': v.ob.name,
                                           'why': '%s %s' % (v.result, v.reason)})

    # -- replays
    def replay_findings(self, max_replays=40):
        """replay one counter-model per (unit, obligation-name, status/known-id) natively"""
        groups = {}
        for fd in self.findings:
            if isinstance(fd.unit, Lemma):
                continue
            key = (fd.unit.name, fd.verdict.ob.name, fd.status, fd.known_id)
            groups.setdefault(key, []).append(fd)
        reqs = []
        picked = []
        for key, fds in groups.items():
            fd = fds[0]
            if fd.model is None or len(picked) >= max_replays:
                continue
            unit = fd.unit
            oc = next((o for o in unit.result.outcomes + unit.result.loop_outcomes
                       if getattr(o, 'path_id', None) == fd.verdict.ob.path_id), None)
            if oc is None:
                continue
            try:
                if unit.kind == 'session':
                    req = session_replay(unit, oc, fd.model)
                elif unit.request is not None:
                    req = unit.request(oc, fd.model)
                else:
                    continue
                if req is None:
                    fd.replay = {'note': 'path depends on an ASSUMED abstract contract; no concrete input synthesised',
                                 'confirmed': False}
                    continue
            except Exception as e:
                fd.replay = {'error': 'could not materialise the model: %r' % (e,)}
                continue
            reqs.append(req)
            picked.append((fd, oc, fds))
        outs = RP.run_native(reqs) if reqs else []
        for (fd, oc, fds), req, out in zip(picked, reqs, outs):
            unit = fd.unit
            try:
                if unit.kind == 'session':
                    exp = session_expected(unit, oc, fd.model)
                    if out.get('outcome') in ('timeout', 'harness-error'):
                        diffs = ['outcome: %s' % out.get('outcome')]
                    else:
                        diffs = RP.compare_views(exp, out.get('view', {}))
                        sp = oc.extra['spec']
                        if sp.exc is None and out.get('outcome') == 'raise':
                            diffs.append('outcome: raised %s (%s), spec says returns' % (out.get('exc'), out.get('exc_str')))
                        if sp.exc is not None and out.get('outcome') == 'return':
                            diffs.append('outcome: returned, spec says raises %s' % (sp.exc[0],))
                        if out.get('view'):
                            for clause in observed_inv_failures(self.prog, req, out['view']):
                                mine = self.prop in unit.props_of('%s/post:Inv/%s' % (unit.name, clause))
                                named = ('/post:Inv/' + clause) in fd.verdict.ob.name
                                if named or (mine and fd.verdict.ob.name.startswith('requires:')):
                                    diffs.append('Inv clause %s is false in the post-state observed on the real code' % clause)
                else:
                    diffs = unit.expected(oc, fd.model, out)
                    if isinstance(out, list):
                        out = {'runs': out[:4]}
            except Exception as e:
                diffs = None
                out = dict(out)
                out['compare_error'] = traceback.format_exc()[-800:]
            rep = {'request': req, 'observed': out, 'spec_disagreements': diffs,
                   'confirmed': bool(diffs)}
            for x in fds:
                x.replay = rep

    def witness_check(self, cap=None):
        """CPython cross-check of the engine: every feasible path's model is run on the real code and must
        end in the state the engine predicted."""
        for unit in self.units:
            if unit.kind != 'session' and (unit.request is None or getattr(unit, 'predicted', None) is None):
                continue
            outs = [o for o in unit.result.outcomes if o.kind in ('return', 'raise')]
            ucap = cap if cap is not None else unit.witness_cap
            if ucap is not None and len(outs) > ucap:
                step = len(outs) / float(ucap)
                outs = [outs[int(i * step)] for i in range(ucap)]
            reqs, meta = [], []
            for o in outs:
                if o.path.opaque_ops:
                    self.witness_skipped = getattr(self, 'witness_skipped', 0) + 1
                    continue          # the engine over-approximated an unmodelled operation: no exact prediction
                m = smt.path_model(o.path)
                if m is None:
                    continue
                try:
                    if unit.kind == 'session':
                        req = session_replay(unit, o, m)
                    else:
                        req = unit.request(o, m)
                    if req is None:
                        continue
                except Exception as e:
                    self.notes.append('witness for %s path %s not materialised: %r' % (unit.name, getattr(o, 'path_id', '?'), e))
                    continue
                reqs.append(req)
                meta.append((o, m))
            if not reqs:
                continue
            nouts = RP.run_native(reqs)
            for (o, m), req, out in zip(meta, reqs, nouts):
                self.witnesses += 1
                try:
                    if unit.kind == 'session':
                        try:
                            ekind, eexc, pred = concrete_session_run(self.prog, unit, req)
                        except Unsupported as e:
                            self.witness_skipped = getattr(self, 'witness_skipped', 0) + 1
                            self.witnesses -= 1
                            self.notes.append('witness of %s outside the interpreter subset: %s' % (unit.name, e))
                            continue
                        diffs = RP.compare_views(pred, out.get('view', {}))
                        kind = out.get('outcome')
                        if kind != ekind:
                            diffs.append('outcome kind: engine %s %s, CPython %s (%s %s)' % (
                                ekind, eexc, kind, out.get('exc'), out.get('exc_str', out.get('error'))))
                    else:
                        diffs = unit.predicted(o, m, out)
                except Exception as e:
                    diffs = ['witness comparison failed: %s' % traceback.format_exc()[-600:]]
                if diffs:
                    self.engine_mismatches.append({'unit': unit.name, 'path': getattr(o, 'path_id', None),
                                                   'diffs': diffs[:6], 'request': req})
                else:
                    self.witness_ok += 1

    # -- reporting
    def finish(self, known, extra_coverage=None, level_note=''):
        os.makedirs(REPLAY_DIR, exist_ok=True)
        violations = []
        known_lines = {}
        for fd in self.findings:
            if fd.status == 'known':
                known_lines.setdefault(fd.known_id, []).append(fd)
            else:
                violations.append(fd)
        exit_code = 0
        lines = []
        kmap = dict((k['id'], k) for k in known if 'id' in k)
        for kid, fds in sorted(known_lines.items()):
            k = kmap[kid]
            lines.append('KNOWN-FINDING: property=%s %s [%s; %d refuted obligation(s) inside region `%s` of %s]' % (
                self.prop, k['what'], kid, len(fds), k['region'], k['function'].split('.')[-1]))
        # replays of known findings are rewritten on every run (the committed copies live in known/)
        for kid, fds in sorted(known_lines.items()):
            fd = next((x for x in fds if x.replay and x.replay.get('confirmed')), fds[0])
            doc = {'property': self.prop, 'known_finding': kid, 'obligation': fd.verdict.ob.name,
                   'function': getattr(fd.unit, 'qual', None), 'what': kmap[kid]['what'], 'region': kmap[kid]['region'],
                   'clause': fd.verdict.ob.meta.get('detail') or str(z3.simplify(fd.verdict.ob.goal))[:2000],
                   'solver': {'backend': fd.verdict.backend, 'result': 'sat (obligation refuted)',
                              'model': model_text(fd.model)},
                   'native': fd.replay if fd.replay else {'confirmed': False}}
            with open(os.path.join(REPLAY_DIR, '%s.json' % kid), 'w') as fh:
                json.dump(doc, fh, indent=1, default=str)
        # group violations: one line per (unit, set of clauses that fail together on a path)
        per_path = {}
        for fd in violations:
            per_path.setdefault((fd.unit.name, fd.verdict.ob.path_id), []).append(fd)
        vgroups = {}
        for (uname, pid), fds in per_path.items():
            names = tuple(sorted(set(fd.verdict.ob.name for fd in fds)))
            vgroups.setdefault((uname, names), []).extend(fds)
        vio_files = []
        for (uname, names), fds in sorted(vgroups.items()):
            fd = next((x for x in fds if x.replay and x.replay.get('confirmed')), fds[0])
            import hashlib
            h = hashlib.sha1('|'.join(names).encode()).hexdigest()[:8]
            fname = '%s-%s-%s.json' % (self.prop, re.sub(r'[^A-Za-z0-9_.-]+', '_', uname)[:80], h)
            path = os.path.join(REPLAY_DIR, fname)
            confirmed = bool(fd.replay and fd.replay.get('confirmed'))
            doc = {'property': self.prop, 'obligation': fd.verdict.ob.name, 'obligations_failing_together': list(names),
                   'function': getattr(fd.unit, 'qual', None),
                   'clause': fd.verdict.ob.meta.get('detail') or str(z3.simplify(fd.verdict.ob.goal))[:2000],
                   'solver': {'backend': fd.verdict.backend, 'result': 'sat (obligation refuted)',
                              'time_s': round(fd.verdict.time_s, 3),
                              'model': model_text(fd.model)},
                   'n_paths_refuted': len(set(x.verdict.ob.path_id for x in fds)),
                   'native': fd.replay if fd.replay else {'confirmed': False, 'note': 'no native replay available'}}
            with open(path, 'w') as fh:
                json.dump(doc, fh, indent=1, default=str)
            rel = os.path.relpath(path, VERIF)
            lines.append('VIOLATION property=%s replay=%s%s' % (self.prop, rel, '' if confirmed else ' no-failing-input-found'))
            print('  %s [%s]: %s' % (uname, model_summary(fd.model), '; '.join(n.split('/', 1)[-1] for n in names)[:300]))
            vio_files.append(rel)
            exit_code = 1
        for name, doc in self.bounded_violations[:10]:
            import hashlib
            h = hashlib.sha1(json.dumps(doc, default=str, sort_keys=True).encode()).hexdigest()[:8]
            path = os.path.join(REPLAY_DIR, '%s-bounded-%s-%s.json' % (self.prop, re.sub(r'[^A-Za-z0-9_.-]+', '_', name)[:60], h))
            with open(path, 'w') as fh:
                json.dump(dict(doc, property=self.prop, obligation='bounded:' + name), fh, indent=1, default=str)
            lines.append('VIOLATION property=%s replay=%s' % (self.prop, os.path.relpath(path, VERIF)))
            exit_code = 1
        if self.engine_mismatches:
            for mm in self.engine_mismatches[:10]:
                lines.append('CHECKER-ERROR: property=%s engine/CPython disagreement or vacuity in %s: %s' % (
                    self.prop, mm.get('unit'), '; '.join(mm.get('diffs', [mm.get('what', '')]))[:400]))
            if exit_code == 0:
                exit_code = 3
        proved = (self.n_obl > 0 and self.n_dis + sum(len(v) for v in known_lines.values()) == self.n_obl
                  and not self.undecided and exit_code == 0)
        level = 'proof' if proved else 'other'
        n_known = sum(len(v) for v in known_lines.values())
        cov = {
            # clauses split by an open known finding are proved OUTSIDE the region; the refuted instances
            # inside the listed regions are not obligations of this run (they are listed, DESIGN.md 7.3)
            'obligations': self.n_obl - n_known, 'discharged': self.n_dis,
            'obligations_generated': self.n_obl,
            'refuted_inside_known_finding_regions': n_known,
            'refuted_new': len(violations),
            'checker_cmd': './check %s --tier %s' % (self.prop, self.tier),
            'trusted_base': self.trusted,
            'functions_under_contract': self.functions,
            'functions_bounded': self.functions_bounded,
            'paths': self.paths,
            'backends': self.backends,
            'solver_time_s': round(self.solver_time, 2),
            'undecided': self.undecided[:50],
            'n_undecided': len(self.undecided),
            'known_findings': sorted(known_lines.keys()),
            'assumed_contracts_used': sorted(_C.ASSUMED_USED),
            'contracts_applied_at_call_sites': len(_C.APPLIED),
            'samples': self.samples[:8],
            'slowest_obligations': [{'obligation': v.ob.name, 'solver_s': round(v.time_s, 2), 'backend': v.backend}
                                    for v in sorted([v for u in self.units for v in (u.verdicts or [])],
                                                    key=lambda v: -v.time_s)[:10]],
            'vacuity': dict(self.vacuity, path_witnesses_replayed=self.witnesses, path_witnesses_agree=self.witness_ok),
            'units': [{'unit': u.name, 'function': u.qual, 'paths': u.result.paths,
                       'obligations': len(u.verdicts), 'discharged': sum(1 for v in u.verdicts if v.result == 'unsat'),
                       'wall_s': round(getattr(u, 'wall', 0), 2)} for u in self.units] +
                     [{'lemma': l.name, 'obligations': len(l.verdicts),
                       'discharged': sum(1 for v in l.verdicts if v.result == 'unsat')} for l in self.lemmas],
            'explanation': level_note or ('every obligation discharged' if proved else
                                          'not all obligations are discharged: see undecided / refuted counts'),
        }
        if self.engine_mismatches:
            cov['checker_errors'] = self.engine_mismatches[:5]
        if self.bounded:
            cov['bounded'] = self.bounded
        if extra_coverage:
            cov.update(extra_coverage)
        ev = {'property_id': self.prop, 'tier': self.tier, 'seed': self.seed, 'level': level, 'coverage': cov,
              'assumptions': self.assumptions, 'wall_s': round(time.time() - self.t0, 2),
              'violations': len(vgroups) + len(self.bounded_violations)}
        os.makedirs(EVID_DIR, exist_ok=True)
        with open(os.path.join(EVID_DIR, '%s.json' % self.prop), 'w') as fh:
            json.dump(ev, fh, indent=1, default=str)
        for ln in lines:
            print(ln)
        print('%s: obligations %d discharged %d known-finding %d new-violations %d undecided %d paths %d '
              'witnesses %d/%d level=%s wall %.1fs' % (
                  self.prop, self.n_obl, self.n_dis, cov['refuted_inside_known_finding_regions'], len(vgroups),
                  len(self.undecided), self.paths, self.witness_ok, self.witnesses, level, time.time() - self.t0))
        return exit_code


SUMMARY_VARS = ('st', 'H', 'cfgH', 'allow_auto', 'with_protocol', 'error', 'suberror', 'proposed_hold', 'tr_connected',
                'P_disconnected')


def model_summary(m):
    if m is None:
        return ''
    out = []
    for d in m.decls():
        n = str(d)
        if d.arity() == 0 and (n in SUMMARY_VARS or n.startswith('ora!')):
            out.append('%s=%s' % (n, m[d]))
    return ' '.join(sorted(out))


def model_text(m):
    if m is None:
        return None
    out = {}
    for d in m.decls():
        if d.arity() == 0:
            out[str(d)] = str(m[d])
    # keep it readable
    keys = sorted(out)
    if len(keys) > 80:
        keys = [k for k in keys if '!' not in k][:80]
    return {k: out[k] for k in keys}
