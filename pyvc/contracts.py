"""pyvc.contracts — function contracts as *specs* (guarded commands over the pre-state).

A spec function `spec(c, *args)` reads the pre-state through the heap objects it is given, may fork with
c.branch(...) and returns a Spec: the heap updates, the effects appended to the trace, and the outcome
(return value or exception).  Everything not listed in `updates`/`havoc` is the FRAME: proved unchanged.

The same spec function is used in both directions, so a contract cannot mean one thing to a caller and
another to the callee's proof:

  * verify(): the spec is evaluated on the symbolic pre-state, then the REAL body (AST from /repo) is
    executed, then post-heap / effects / outcome are compared with the Spec -> proof obligations;
  * at call sites (modular rule): the spec is evaluated on the caller's current heap and *performed*.
"""
import time
import z3

from .values import (SNum, SBool, SBytes, Opaque, Obj, Unsupported, Infeasible, LoopCut, CUR, to_term, to_bool_term,
                     mk_num, mk_bool, bytes_eq_term, fresh_name)
from .interp import (Interp, PyExc, Ret, BEXC, BCls, Cls, Func, BoundMethod, Builtin, is_subclass, _MISSING)
from .paths import Path, Outcome, explore
from .strings import SStr, Atom
from .models import NetIP


class Spec(object):
    def __init__(self, updates=None, effects=None, ret=None, exc=None, havoc=None, post=None, note=''):
        self.updates = list(updates or [])     # [(container, key, value)]
        self.effects = list(effects or [])     # [effect tuples]; an element may be EffAny(pred)
        self.ret = ret
        self.exc = exc                          # None | (class-or-name, {field: value}) | ExcAny(names)
        self.havoc = list(havoc or [])          # [(container, key)] fields whose new value is unconstrained
        self.post = list(post or [])            # [(name, callable(post_reader) -> z3 bool)] extra postconditions
        self.note = note
        self.any_effects_after = False          # allow arbitrary further effects (used with assumed callees)
        self.may_raise = ()                     # exception class names that are an acceptable outcome besides returning


class _Deleted(object):
    def __repr__(self):
        return '<deleted>'


DELETED = _Deleted()


class Any(object):
    """wildcard in an expected effect tuple / return value"""

    def __init__(self, pred=None, name='any'):
        self.pred = pred
        self.name = name

    def __repr__(self):
        return '<any %s>' % self.name


ANY = Any()


class SpecCtx(object):
    def __init__(self, it, mode, unit=None):
        self.it = it
        self.mode = mode     # 'verify' | 'apply'
        self.unit = unit     # short name of the function being verified / applied

    def branch(self, c):
        if isinstance(c, (SBool, SNum)) or z3.is_expr(c):
            return self.it.p.branch(c)
        return bool(c)

    def truth(self, v):
        return self.it.truth(v)

    @property
    def p(self):
        return self.it.p

    # -- shared oracles: the spec side and the body side (contract applied at a call site) of an ASSUMED
    #    abstract contract must talk about the same unknowns; names are derived from (tag, call index per side)
    def _ora_name(self, tag):
        g = self.it.p.ghost.setdefault('ora_idx', {})
        k = (self.mode, tag)
        i = g.get(k, 0)
        g[k] = i + 1
        return 'ora!%s!%d' % (tag, i)

    def ora_bool(self, tag):
        return self.it.p.branch(z3.Bool(self._ora_name(tag)))

    def ora_int(self, tag, lo, hi):
        v = z3.Int(self._ora_name(tag))
        self.it.p.assume(z3.And(v >= lo, v <= hi))
        return SNum(v)

    def ora_choice(self, tag, n):
        v = z3.Int(self._ora_name(tag))
        self.it.p.assume(z3.And(v >= 0, v < n))
        for i in range(n - 1):
            if self.it.p.branch(v == i):
                return i
        return n - 1

    # -- outcome-directed alternatives: the spec allows either behaviour; which one applies is read off
    #    the body's observable outcome (verify) / is a nondeterministic choice for the caller (apply)
    def may(self, tag, observe):
        name = self._ora_name('alt!' + tag)
        choice = self.it.p.branch(z3.Bool(name))
        if self.mode == 'verify':
            self.it.p.ghost.setdefault('alts', []).append((name, choice, observe))
        return choice

    def requires(self, cond, name, own=None):
        """precondition: assumed when the function itself is verified, an obligation at every call site.
        Spec programs are composed by plain calls; a precondition is inherited by the composing spec unless
        it is tagged own=<function name>: then it only counts when that function is the one being
        verified / applied (so a callee's precondition does not silently restrict its callers' proofs)."""
        if own is not None and self.unit not in (own if isinstance(own, (tuple, list)) else (own,)):
            return
        if isinstance(cond, (SBool,)):
            cond = cond.t
        if isinstance(cond, bool):
            cond = z3.BoolVal(cond)
        if self.mode == 'verify':
            self.it.p.assume(cond)
            if not self.it.p.check_feasible_now():
                raise Infeasible()
        else:
            self.it.p.prove('requires:' + name, cond, kind='requires')
            self.it.p.assume(cond)


# ---------------------------------------------------------------- heap snapshot / frame
def _children(v):
    if isinstance(v, Obj):
        return [(k, x) for k, x in v.f.items()]
    if isinstance(v, dict):
        return list(v.items())
    if isinstance(v, list):
        return list(enumerate(v))
    return []


def snapshot(roots):
    """{id(container): (container, {key: value})} for everything reachable from roots"""
    snap = {}
    stack = list(roots)
    while stack:
        v = stack.pop()
        if isinstance(v, (Obj, dict, list)):
            if id(v) in snap:
                continue
            ch = _children(v)
            snap[id(v)] = (v, dict((k, x) for k, x in ch))
            for k, x in ch:
                if isinstance(x, (Obj, dict, list)):
                    stack.append(x)
                elif isinstance(x, tuple):
                    stack.extend(y for y in x if isinstance(y, (Obj, dict, list)))
                elif isinstance(x, BoundMethod) and isinstance(x.self_val, Obj):
                    stack.append(x.self_val)
    return snap


def describe(container, key):
    tag = container.tag if isinstance(container, Obj) else type(container).__name__
    return '%s.%s' % (tag, key)


def same_value(a, b, goals, what):
    """structural comparison; symbolic differences become goals [(what, z3 bool)]; returns False on a
    definite mismatch"""
    if a is b:
        return True
    if isinstance(a, Any) or isinstance(b, Any):
        x, y = (a, b) if isinstance(a, Any) else (b, a)
        if x.pred is not None:
            r = x.pred(y)
            if r is True:
                return True
            if r is False:
                return False
            goals.append((what, r))
        return True
    if isinstance(a, (Obj, Cls, BCls, Func)) or isinstance(b, (Obj, Cls, BCls, Func)):
        return a is b
    if isinstance(a, BoundMethod) and isinstance(b, BoundMethod):
        return a.func is b.func and a.self_val is b.self_val
    if a is None or b is None:
        return False
    numa = isinstance(a, (int, float, SNum, SBool)) and not isinstance(a, str)
    numb = isinstance(b, (int, float, SNum, SBool)) and not isinstance(b, str)
    if numa and numb:
        boola = isinstance(a, (bool, SBool))
        boolb = isinstance(b, (bool, SBool))
        if boola != boolb:
            # python: True == 1; but a bool-vs-int mismatch in a heap field is a type change: compare values
            pass
        if not isinstance(a, (SNum, SBool)) and not isinstance(b, (SNum, SBool)):
            return a == b and (isinstance(a, float) == isinstance(b, float) or True)
        if boola and boolb:
            eq = z3.simplify(to_bool_term(a) == to_bool_term(b))
            if z3.is_true(eq):
                return True
            if z3.is_false(eq):
                return False
            goals.append((what, eq))
            return True
        ta, tb = to_term(a), to_term(b)
        if ta.sort().kind() != tb.sort().kind():
            ta = z3.ToReal(ta) if ta.sort().kind() != z3.Z3_REAL_SORT else ta
            tb = z3.ToReal(tb) if tb.sort().kind() != z3.Z3_REAL_SORT else tb
        if ta.eq(tb):
            return True
        eq = z3.simplify(ta == tb)
        if z3.is_true(eq):
            return True
        if z3.is_false(eq):
            return False
        goals.append((what, eq))
        return True
    if isinstance(a, (bytes, bytearray, SBytes)) and isinstance(b, (bytes, bytearray, SBytes)):
        if isinstance(a, (bytes, bytearray)) and isinstance(b, (bytes, bytearray)):
            return bytes(a) == bytes(b)
        goals.append((what, bytes_eq_term(a, b)))
        return True
    if isinstance(a, (str, SStr)) and isinstance(b, (str, SStr)):
        return same_str(a, b, goals, what)
    if isinstance(a, (list, tuple)) and isinstance(b, (list, tuple)):
        if type(a) is not type(b) or len(a) != len(b):
            return False
        return all(same_value(x, y, goals, '%s[%d]' % (what, i)) for i, (x, y) in enumerate(zip(a, b)))
    if isinstance(a, dict) and isinstance(b, dict):
        from .values import SymKey
        ka = [k for k in a if not isinstance(k, SymKey)]
        kb = [k for k in b if not isinstance(k, SymKey)]
        sa = [k for k in a if isinstance(k, SymKey)]
        sb = [k for k in b if isinstance(k, SymKey)]
        if set(ka) != set(kb) or len(sa) != len(sb):
            return False
        ok = all(same_value(a[k], b[k], goals, '%s[%r]' % (what, k)) for k in ka)
        # symbolic keys: paired in insertion order; their equality is an obligation
        for x, y in zip(sa, sb):
            ok = ok and same_value(x.v, y.v, goals, '%s[key]' % what) and same_value(a[x], b[y], goals, '%s[symbolic key]' % what)
        return ok
    if isinstance(a, NetIP) and isinstance(b, NetIP):
        return same_value((a.version, a.value, a.prefixlen), (b.version, b.value, b.prefixlen), goals, what)
    if isinstance(a, Opaque) or isinstance(b, Opaque):
        return a is b
    if type(a) is type(b):
        try:
            return a == b
        except Exception:
            return False
    return False


def same_str(a, b, goals, what):
    from .strings import norm
    a, b = norm(a), norm(b)
    if isinstance(a, str) and isinstance(b, str):
        return a == b
    pa = a.parts if isinstance(a, SStr) else [a]
    pb = b.parts if isinstance(b, SStr) else [b]
    if len(pa) != len(pb):
        return False
    for x, y in zip(pa, pb):
        if isinstance(x, str) or isinstance(y, str):
            if x != y:
                return False
            continue
        if x.kind != y.kind:
            return False
        if isinstance(x.t, SBytes) or isinstance(y.t, SBytes):
            goals.append((what, bytes_eq_term(x.t, y.t)))
        else:
            if x.extra != y.extra:
                return False
            if not x.t.eq(y.t):
                goals.append((what, x.t == y.t))
    return True


def effect_str(e):
    def s(x):
        if isinstance(x, SBytes):
            return 'bytes(len=%s)' % x.len
        if isinstance(x, (SNum, SBool)):
            return str(z3.simplify(x.t))
        if isinstance(x, dict):
            return '{' + ', '.join('%s: %s' % (k, s(v)) for k, v in x.items()) + '}'
        if isinstance(x, (tuple, list)):
            return '(' + ', '.join(s(y) for y in x) + ')'
        return repr(x)
    return '%s(%s)' % (e[0], ', '.join(s(x) for x in e[1:]))


# ---------------------------------------------------------------- the two directions
# mechanical record of what was taken on trust at call sites during a run (reported in the evidence)
APPLIED = {}
ASSUMED_USED = set()


class Contract(object):
    def __init__(self, qual, spec, mark=False, assumed=False, doc=''):
        self.qual = qual
        self.spec = spec
        self.mark = mark
        self.assumed = assumed       # True: used at call sites but its own body is NOT verified (listed)
        self.doc = doc

    # modular call rule
    def __call__(self, it, func, args, kw):
        APPLIED[self.qual] = APPLIED.get(self.qual, 0) + 1
        if self.assumed:
            ASSUMED_USED.add(self.qual)
        env = it.bind(func, args, kw)
        params = [a.arg for a in func.node.args.posonlyargs + func.node.args.args]
        vals = [env[pn] for pn in params]
        c = SpecCtx(it, 'apply', self.qual.split('.')[-1])
        sp = self.spec(c, *vals)
        if self.mark:
            it.p.effect('Call', self.qual, tuple(vals[1:]) if func.cls is not None else tuple(vals))
        perform(it, sp)
        if sp.exc is not None:
            raise PyExc(make_exc(it, sp.exc))
        if isinstance(sp.ret, Any):
            return Opaque('unspecified result of %s' % self.qual)
        return sp.ret


def make_exc(it, exc):
    cls, fields = exc
    if isinstance(cls, str):
        cls = BEXC[cls] if cls in BEXC else it.prog.func(cls)
    o = Obj(cls, dict(fields))
    o.f.setdefault('args', ())
    if isinstance(cls, BCls) and cls.name == 'OpaqueException':
        o.f['_not_source_defined'] = True
    return o


def perform(it, sp):
    for (cont, key) in sp.havoc:
        cur = cont.f[key] if isinstance(cont, Obj) else cont[key]
        new = it.havoc_value(cur, 'havoc by contract')
        if isinstance(cont, Obj):
            cont.f[key] = new
        else:
            cont[key] = new
    for (cont, key, val) in sp.updates:
        if isinstance(cont, Obj):
            cont.f[key] = val
        else:
            cont[key] = val
    for e in sp.effects:
        it.p.effects.append(e)
    for name, fn in sp.post:
        it.p.assume(fn())


def compare(it, sp, pre_snap, roots, eff0, outcome, prefix):
    """emit obligations: post-heap == pre-heap + updates (frame), effects == spec effects, outcome"""
    p = it.p
    if getattr(sp, 'loop_abstract', False):
        return compare_outcome_only(it, sp, outcome, prefix)
    upd = {}
    for (cont, key, val) in sp.updates:
        upd[(id(cont), key)] = val
    hav = set((id(cont), key) for (cont, key) in sp.havoc)
    skip_containers = set(id(x) for x in getattr(sp, 'havoc_containers', ()))
    post_snap = snapshot(roots)
    definite = []      # definite mismatches -> obligation `False`
    goals = []
    for cid, (cont, fields) in pre_snap.items():
        if cid in skip_containers:
            continue
        now = dict(_children(cont))
        keys = set(fields) | set(now)
        for k in keys:
            if (cid, k) in hav:
                continue
            exp = upd.get((cid, k), fields.get(k, _MISSING))
            if exp is DELETED:
                exp = _MISSING
            got = now.get(k, _MISSING)
            w = describe(cont, k)
            if exp is _MISSING or got is _MISSING:
                if exp is not got:
                    definite.append('frame:%s %s' % (w, 'created' if exp is _MISSING else 'deleted'))
                continue
            g = []
            if not same_value(exp, got, g, w):
                definite.append(('update:' if (cid, k) in upd else 'frame:') + w)
            elif not g and (cid, k) in upd:
                goals.append(('update:' + w, z3.BoolVal(True)))      # identical terms: discharged syntactically
            for (ww, t) in g:
                goals.append((('update:' if (cid, k) in upd else 'frame:') + ww, t))
    # updates that target objects not in the pre-snapshot (e.g. containers created by the function) are ignored here
    # effects
    got_eff = p.effects[eff0:]
    flt = getattr(sp, 'effect_filter', None)
    if flt is not None:
        got_eff = flt(got_eff)
    exp_eff = sp.effects
    if len(got_eff) != len(exp_eff) and not sp.any_effects_after:
        definite.append('effects: expected %d [%s] got %d [%s]' % (
            len(exp_eff), '; '.join(effect_str(e) for e in exp_eff), len(got_eff),
            '; '.join(effect_str(e) for e in got_eff)))
    else:
        for i, (e, g_) in enumerate(zip(exp_eff, got_eff)):
            g = []
            if len(e) != len(g_) or not same_value(tuple(e), tuple(g_), g, 'effect[%d]' % i):
                definite.append('effect[%d]: expected %s got %s' % (i, effect_str(e), effect_str(g_)))
            goals.extend(g)
    # outcome
    if outcome.kind == 'return':
        if sp.exc is not None:
            definite.append('outcome: returned, spec says raises %s' % (sp.exc[0],))
        else:
            g = []
            if not same_value(sp.ret, outcome.value, g, 'result'):
                definite.append('result: expected %r got %r' % (sp.ret, outcome.value))
            goals.extend(g)
    elif outcome.kind == 'raise':
        ev = outcome.value
        if sp.exc is None:
            if ev.clsname not in sp.may_raise and not (getattr(sp, 'element_errors_ok', False) and ev.f.get('_in_abstracted_loop')):
                definite.append('outcome: raised %s, spec says returns' % ev.clsname)
        else:
            cls, fields = sp.exc
            if isinstance(cls, str):
                cls = BEXC[cls] if cls in BEXC else it.prog.func(cls)
            if not is_subclass(ev.cls, cls):
                definite.append('outcome: raised %s, spec says %s' % (ev.clsname, cls.name))
            for k, v in fields.items():
                g = []
                if not same_value(v, ev.f.get(k, _MISSING), g, 'exc.' + k):
                    definite.append('exc.%s: expected %r got %r' % (k, v, ev.f.get(k)))
                goals.extend(g)
    for name, fn in sp.post:
        goals.append(('post:' + name, fn()))
    for d in definite:
        p.prove('%s/%s' % (prefix, d.split(' ')[0]), z3.BoolVal(False), detail=d)
    seen = {}
    for (w, t) in goals:
        n = seen.get(w, 0)
        seen[w] = n + 1
        p.prove('%s/%s%s' % (prefix, w, '' if n == 0 else '#%d' % n), t)
    if not definite and not goals:
        p.prove('%s/ok' % prefix, z3.BoolVal(True))


def compare_outcome_only(it, sp, outcome, prefix):
    p = it.p
    if outcome.kind == 'raise' and sp.exc is None and outcome.value.clsname in getattr(sp, 'may_raise', ()):
        p.prove('%s/outcome-ok' % prefix, z3.BoolVal(True))
    elif outcome.kind == 'raise' and sp.exc is None:
        p.prove('%s/outcome:' % prefix, z3.BoolVal(False),
                detail='outcome: raised %s, spec says returns' % outcome.value.clsname)
    elif outcome.kind == 'return' and sp.exc is not None:
        p.prove('%s/outcome:' % prefix, z3.BoolVal(False), detail='outcome: returned, spec says raises')
    else:
        p.prove('%s/outcome-ok' % prefix, z3.BoolVal(True))
    for name, fn in sp.post:
        p.prove('%s/post:%s' % (prefix, name), fn())


def havoc_heap(it, roots, skip=(), skip_keys=()):
    """replace every scalar leaf reachable from roots by a fresh unknown of the same kind"""
    snap = snapshot(roots)
    for cid, (cont, fields) in snap.items():
        if any(cont is x for x in skip):
            continue
        for k, v in fields.items():
            if k in skip_keys:
                continue
            if isinstance(v, (SNum, SBool, SBytes, bytes)) or (isinstance(v, (int, float)) and not isinstance(v, bool)) \
                    or isinstance(v, bool):
                new = it.havoc_value(v, 'loop havoc')
                if isinstance(cont, Obj):
                    cont.f[k] = new
                else:
                    cont[k] = new


def make_while_rule(inv, variant, havoc, lineno=None):
    """classic loop rule: inv on entry; havoc; assume inv; one arbitrary iteration must preserve inv and
    decrease the variant (>= 0); after the loop: inv and not test"""
    import ast as _ast

    def rule(it, node, env, itval):
        if not isinstance(node, _ast.While) or (lineno is not None and node.lineno != lineno):
            return _MISSING
        p = it.p
        tag = 'loop@%d' % node.lineno
        for n, t in inv(it, env):
            p.prove('%s/inv-entry/%s' % (tag, n), t)
        havoc(it, env)
        for n, t in inv(it, env):
            p.assume(t)
        if not p.check_feasible_now():
            raise Infeasible()
        v0 = variant(it, env)
        if it.truth(it.ev(node.test, env)):
            from .interp import Brk, Cont
            try:
                it.run(node.body, env)
            except Cont:
                pass
            except Brk:
                return None
            for n, t in inv(it, env):
                p.prove('%s/inv-preserved/%s' % (tag, n), t)
            v1 = variant(it, env)
            p.prove('%s/variant-decreases' % tag, z3.And(v0 >= 0, v1 < v0))
            raise LoopCut()
        it.run(node.orelse, env)
        return None
    return rule


class VerifyResult(object):
    def __init__(self, qual):
        self.qual = qual
        self.outcomes = []
        self.obligations = []
        self.unsupported = []
        self.paths = 0
        self.explore_s = 0.0
        self.opaque_paths = 0
        self.loop_outcomes = []
        self.loop_paths = 0


def verify(prog, qual, build, spec, light=False, inline=None, name=None, max_paths=20000, time_budget_s=600,
           loop_rule=None, on_path=None, abstraction=None):
    """Explore every path of the real body of `qual` from the pre-state made by build(it) -> (roots, args, kw);
    compare each with spec(c, *args)."""
    f = prog.func(qual)
    res = VerifyResult(qual)
    prefix = name or qual.split('.', 2)[-1] if qual.startswith('yabgp.') else qual
    t0 = time.time()

    def run_one(p):
        it = Interp(prog, light=light)
        it.under_verification = qual
        it.inline_only = inline
        it.loop_rule = loop_rule
        try:
            built = build(it)
            roots, args, kw = built[0], built[1], built[2]
            bctx = built[3] if len(built) > 3 else None
            env = it.bind(f, args, kw)
            params = [a.arg for a in f.node.args.posonlyargs + f.node.args.args]
            vals = [env[pn] for pn in params]
            c = SpecCtx(it, 'verify', qual.split('.')[-1])
            sp = spec(c, *vals)
            pre = snapshot(roots)
            eff0 = len(p.effects)
            try:
                v = it.call_func(f, args, kw)
                out = Outcome('return', v)
            except PyExc as e:
                out = Outcome('raise', e.val)
            for (aname, choice, observe) in p.ghost.get('alts', []):
                if bool(observe(out, p.effects[eff0:])) != bool(choice):
                    # the other alternative of the spec is the one that speaks about this outcome
                    return Outcome('cut')
            out.extra['spec'] = sp
            out.extra['ctx'] = bctx
            out.extra['args'] = vals
            out.extra['eff0'] = eff0
            if abstraction is not None:
                abstraction(it, roots, eff0)
            if sp is not None:
                compare(it, sp, pre, roots, eff0, out, prefix)
            if on_path is not None:
                on_path(it, out, sp)
            return out
        except LoopCut:
            raise
        except Unsupported as e:
            return Outcome('unsupported', str(e))
    outs = explore(run_one, max_paths=max_paths, time_budget_s=time_budget_s)
    res.explore_s = time.time() - t0
    for i, o in enumerate(outs):
        if o.kind == 'cut':
            # a path that became infeasible (e.g. after assuming a callee precondition that is definitely
            # violated) still carries the obligations recorded before that point: they must not be lost
            for ob in o.path.obligations:
                ob.path_id = i
                res.obligations.append(ob)
            if o.path.obligations:
                o.path_id = i
                res.loop_outcomes.append(o)
            continue
        if o.kind == 'loopcut':
            for ob in o.path.obligations:
                ob.path_id = i
                res.obligations.append(ob)
            res.loop_paths = getattr(res, 'loop_paths', 0) + 1
            o.path_id = i
            res.loop_outcomes.append(o)
            continue
        res.paths += 1
        o.path_id = i
        res.outcomes.append(o)
        if o.kind == 'unsupported':
            res.unsupported.append(o.value)
        for ob in o.path.obligations:
            ob.path_id = i
            res.obligations.append(ob)
        if o.path.opaque_ops:
            res.opaque_paths += 1
    return res


# ---------------------------------------------------------------- abstract programs over the view
class Sim(object):
    """Scratch state for writing a spec as an abstract program: reads see pending writes; the result is
    a Spec whose updates are the final values of everything written."""

    def __init__(self, c):
        self.c = c
        self.it = c.it
        self.w = {}          # (id(cont), key) -> (cont, key, value)
        self.effects = []
        self.havoc = []
        self.havoc_containers = []
        self.post = []
        self.ret = None
        self.exc = None

    def get(self, cont, key):
        k = (id(cont), key)
        if k in self.w:
            return self.w[k][2]
        return cont.f[key] if isinstance(cont, Obj) else cont[key]

    def set(self, cont, key, val):
        self.w[(id(cont), key)] = (cont, key, val)

    def dont_care(self, cont, key):
        self.havoc.append((cont, key))

    def delete(self, cont, key):
        self.w[(id(cont), key)] = (cont, key, DELETED)

    def dont_care_all(self, container):
        """the whole content of a container (dict / list / object) is unconstrained"""
        self.havoc_containers.append(container)

    def eff(self, *e):
        self.effects.append(tuple(e))

    def branch(self, cond):
        if isinstance(cond, bool):
            return cond
        return self.c.branch(cond)

    def is_(self, v, const):
        """v == const (numbers), forking"""
        if isinstance(v, (SNum, SBool)):
            return self.c.branch(to_term(v) == const)
        return v == const

    def in_(self, v, consts):
        if isinstance(v, (SNum, SBool)):
            return self.c.branch(z3.Or([to_term(v) == k for k in consts]))
        return v in consts

    def add(self, a, b):
        return self.it.m.binop(self.it, 'Add', a, b)

    def spec(self):
        hav = set((id(cn), k) for cn, k in self.havoc)
        sp = Spec(updates=[u for kk, u in self.w.items() if kk not in hav], effects=self.effects,
                  ret=self.ret, exc=self.exc, havoc=self.havoc, post=self.post)
        sp.havoc_containers = list(self.havoc_containers)
        return sp
