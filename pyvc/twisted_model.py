"""pyvc.twisted_model — environment contract T1 (Twisted is installed nowhere; documented behaviour assumed).

reactor.callLater / DelayedCall, transport.write / loseConnection, reactor.connectTCP, callFromThread,
protocol.Protocol / protocol.Factory base classes.  Every interaction is recorded as an effect on the path:

  ('CallLater', dc, seconds)         a DelayedCall object was created (dc.f: called/cancelled/time/fn)
  ('DCReset', dc, seconds) / ('DCCancel', dc)
  ('Write', transport, data)         octets handed to the connection
  ('LoseConnection', transport)
  ('ConnectTCP', {host, port, factory, timeout, bindAddress})
  ('CallFromThread', fn, args)       (then run at once: single reactor thread, T2)
"""
import z3

from .values import SNum, SBool, SBytes, Opaque, Obj, Unsupported, CUR, to_term, mk_num, mk_bool, fresh_name
from .interp import (PyExc, raise_builtin, BEXC, BCls, Cls, Func, BoundMethod, Builtin, ExtModule, _MISSING)


def reactor_now(it):
    p = it.p
    t = p.ghost.get('reactor_now')
    if t is None:
        t = z3.Real(fresh_name('rnow'))
        p.ghost['reactor_now'] = t
    return t


def install(M):
    ext = M.ext
    H = M.obj_attr_handlers

    def bound(name, fn):
        return Builtin(name, fn)

    # ---- DelayedCall
    def dc_attr(it, dc, attr):
        def check_live():
            if it.truth(dc.f['cancelled']):
                raise_builtin('AlreadyCancelled')
            if it.truth(dc.f['called']):
                raise_builtin('AlreadyCalled')
        if attr == 'cancel':
            def cancel(it, a, kw):
                check_live()
                dc.f['cancelled'] = True
                it.p.effect('DCCancel', dc)
            return bound('DelayedCall.cancel', cancel)
        if attr == 'reset':
            def reset(it, a, kw):
                check_live()
                secs = a[0]
                dc.f['time'] = M.binop(it, 'Add', SNum(reactor_now(it)), secs)
                it.p.effect('DCReset', dc, secs)
            return bound('DelayedCall.reset', reset)
        if attr == 'active':
            def active(it, a, kw):
                return not (it.truth(dc.f['cancelled']) or it.truth(dc.f['called']))
            return bound('DelayedCall.active', active)
        if attr == 'getTime':
            return bound('DelayedCall.getTime', lambda it, a, kw: dc.f['time'])
        return _MISSING
    H['DelayedCall'] = dc_attr

    # ---- reactor
    def reactor_attr(it, r, attr):
        if attr == 'callLater':
            def callLater(it, a, kw):
                secs = a[0]
                if isinstance(secs, Opaque):
                    raise Unsupported('callLater with opaque delay')
                if not isinstance(secs, (int, float, SNum)) or isinstance(secs, bool):
                    raise_builtin('TypeError', 'callLater delay must be a number')
                if isinstance(secs, SNum):
                    if not it.branch(secs.t >= 0):
                        raise_builtin('AssertionError', 'callLater with negative delay')
                elif secs < 0:
                    raise_builtin('AssertionError', 'callLater with negative delay')
                dc = Obj('DelayedCall', {'called': False, 'cancelled': False,
                                         'time': M.binop(it, 'Add', SNum(reactor_now(it)), secs),
                                         'fn': a[1], 'args': tuple(a[2:])})
                it.p.effect('CallLater', dc, secs)
                return dc
            return bound('reactor.callLater', callLater)
        if attr == 'callFromThread':
            def cft(it, a, kw):
                it.p.effect('CallFromThread', a[0], tuple(a[1:]))
                return it.call(a[0], list(a[1:]), kw)
            return bound('reactor.callFromThread', cft)
        if attr == 'connectTCP':
            def connectTCP(it, a, kw):
                names = ['host', 'port', 'factory', 'timeout', 'bindAddress']
                d = dict(zip(names, a))
                d.update(kw)
                it.p.effect('ConnectTCP', d)
                fac = d.get('factory')
                if isinstance(fac, Obj) and '_ghost' in fac.f:
                    g = fac.f['_ghost']
                    g.f['n_pending'] = M.binop(it, 'Add', g.f['n_pending'], 1)
                return Obj('Connector', {'transport': Opaque('connector transport'), 'args': d})
            return bound('reactor.connectTCP', connectTCP)
        if attr in ('run', 'stop', 'suggestThreadPoolSize', 'addSystemEventTrigger'):
            return bound('reactor.' + attr, lambda it, a, kw: it.p.effect('Reactor.' + attr))
        if attr == 'running':
            return True
        return _MISSING
    H['Reactor'] = reactor_attr

    # ---- transport
    def transport_attr(it, t, attr):
        if attr == 'write':
            def write(it, a, kw):
                it.p.effect('Write', t, a[0])
            return bound('transport.write', write)
        if attr == 'loseConnection':
            def lose(it, a, kw):
                it.p.effect('LoseConnection', t)
                t.f['disconnecting'] = True
            return bound('transport.loseConnection', lose)
        if attr == 'abortConnection':
            def abort(it, a, kw):
                it.p.effect('AbortConnection', t)
                t.f['disconnecting'] = True
            return bound('transport.abortConnection', abort)
        if attr == 'setTcpNoDelay' or attr == 'setTcpKeepAlive':
            return bound('transport.' + attr, lambda it, a, kw: None)
        if attr == 'getHost' or attr == 'getPeer':
            return bound('transport.' + attr, lambda it, a, kw: t.f.get('_' + attr) or Obj('Addr', {
                'host': '10.0.0.1', 'port': 40000}))
        if attr == 'getHandle':
            return bound('transport.getHandle', lambda it, a, kw: Opaque('socket handle'))
        return _MISSING
    H['Transport'] = transport_attr
    H['Addr'] = lambda it, o, attr: _MISSING
    H['Connector'] = lambda it, o, attr: _MISSING

    # ---- protocol.Protocol / protocol.Factory base classes
    Protocol = BCls('Protocol', [BEXC['object']])
    Protocol.attrs.update({'transport': None, 'factory': None, 'connected': 0})
    Factory = BCls('Factory', [BEXC['object']])
    Factory.attrs.update({'protocol': None, 'noisy': True, 'numPorts': 0})

    def factory_buildProtocol(it, a, kw):
        self_, addr = a[0], a[1]
        pcls = it.getattr(self_, 'protocol')
        p = it.call(pcls, [], {})
        it.setattr(p, 'factory', self_)
        return p
    Factory.methods['buildProtocol'] = Builtin('Factory.buildProtocol', factory_buildProtocol)
    Factory.methods['startedConnecting'] = Builtin('Factory.startedConnecting', lambda it, a, kw: None)
    Factory.methods['clientConnectionLost'] = Builtin('Factory.clientConnectionLost', lambda it, a, kw: None)
    Factory.methods['clientConnectionFailed'] = Builtin('Factory.clientConnectionFailed', lambda it, a, kw: None)
    Factory.methods['doStart'] = Builtin('Factory.doStart', lambda it, a, kw: None)
    Factory.methods['doStop'] = Builtin('Factory.doStop', lambda it, a, kw: None)
    Protocol.methods['connectionMade'] = Builtin('Protocol.connectionMade', lambda it, a, kw: None)
    Protocol.methods['connectionLost'] = Builtin('Protocol.connectionLost', lambda it, a, kw: None)
    Protocol.methods['dataReceived'] = Builtin('Protocol.dataReceived', lambda it, a, kw: None)
    protocol = ExtModule('twisted.internet.protocol', {
        'Protocol': Protocol, 'Factory': Factory, 'ClientFactory': Factory, 'ReconnectingClientFactory': Factory})
    error = ExtModule('twisted.internet.error', {
        'AlreadyCalled': BEXC['AlreadyCalled'], 'AlreadyCancelled': BEXC['AlreadyCancelled']})
    internet = ExtModule('twisted.internet', {'protocol': protocol, 'error': error, 'reactor': M.reactor,
                                              'threads': ExtModule('twisted.internet.threads'),
                                              'defer': ExtModule('twisted.internet.defer')})
    ext['twisted'] = ExtModule('twisted', {'internet': internet})
    ext['twisted.internet'] = internet
    ext['twisted.internet.protocol'] = protocol
    ext['twisted.internet.error'] = error
    ext['twisted.internet.reactor'] = M.reactor
    for nm in ('twisted.web', 'twisted.web.server', 'twisted.web.wsgi', 'twisted.python', 'twisted.python.log',
               'twisted.internet.threads', 'twisted.internet.defer', 'twisted.web.resource'):
        ext.setdefault(nm, ExtModule(nm))
