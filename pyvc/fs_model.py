"""pyvc.fs_model — file system / json / os model (trusted base T3) used by C20.

The directory is a ghost map on the path: p.ghost['fs'] = {'files': {name: FileModel}, 'order': [...]}.
Only what yabgp/handler/default_handler.py needs is modelled; everything else is opaque.
"""
import z3

from .values import SNum, SBool, SBytes, Opaque, Obj, Unsupported, CUR, to_term, mk_num, mk_bool, fresh_name
from .interp import (PyExc, raise_builtin, BEXC, BCls, Cls, Func, BoundMethod, Builtin, ExtModule, _MISSING)


def install(M):
    ext = M.ext
    noop = Builtin('noop', lambda it, a, kw: None)

    def hook(name, default=None):
        """os/json/open operations are delegated to a per-run file-system harness installed in
        M.fs (set by the C20 contracts); absent harness -> opaque."""
        def fn(it, a, kw):
            fs = getattr(M, 'fs', None)
            if fs is not None and hasattr(fs, name):
                return getattr(fs, name)(it, a, kw)
            return it.opaque_call(name)
        return Builtin(name, fn)

    ospath = ExtModule('os.path', {
        'join': hook('os_path_join'), 'exists': hook('os_path_exists'), 'getsize': hook('os_path_getsize'),
        'dirname': hook('os_path_dirname'), 'basename': hook('os_path_basename'),
        'isfile': hook('os_path_isfile'), 'isdir': hook('os_path_isdir'), 'abspath': hook('os_path_abspath'),
        'sep': '/'})
    ext['os'] = ExtModule('os', {
        'path': ospath, 'listdir': hook('os_listdir'), 'makedirs': hook('os_makedirs'), 'fsync': hook('os_fsync'),
        'getpid': Builtin('os.getpid', lambda it, a, kw: 4242), 'chmod': noop, 'sep': '/',
        'environ': {}, 'remove': hook('os_remove'), 'getcwd': Builtin('os.getcwd', lambda it, a, kw: '/'),
        'linesep': '\n'})
    ext['os.path'] = ospath
    jsonmod = ExtModule('json', {'dump': hook('json_dump'), 'dumps': hook('json_dumps'), 'loads': hook('json_loads'),
                                 'load': hook('json_load')})
    ext['json'] = jsonmod
    ext['simplejson'] = jsonmod

    def open_file(it, a, kw):
        fs = getattr(M, 'fs', None)
        if fs is not None:
            return fs.open(it, a, kw)
        return it.opaque_call('open')
    M.open_file = open_file
