"""pyvc.session — the symbolic pre-state ("view") of one peering: BGPPeering / FSM / BGP / timers /
transport / handler / CONF, built as a small heap of Obj whose classes are the REAL classes parsed from
/repo (so attribute and method resolution goes through the real class bodies).

Timers are held in their abstract form (status, active, deadline): BGPTimer.{cancel,reset,active} are
verified once against contracts on the concrete DelayedCall representation (contracts/timer.py) and
used through those contracts everywhere else.
"""
import z3
from .values import SNum, SBool, SBytes, Obj, Opaque, mk_num, mk_bool, to_term, fresh_name
from .interp import Builtin, BoundMethod, _MISSING, raise_builtin

ST_IDLE, ST_CONNECT, ST_ACTIVE, ST_OPENSENT, ST_OPENCONFIRM, ST_ESTABLISHED = 1, 2, 3, 4, 5, 6
TIMERS = ['connect_retry_timer', 'hold_timer', 'keep_alive_timer', 'delay_open_timer', 'idle_hold_timer']
TSHORT = {'connect_retry_timer': 'cr', 'hold_timer': 'hold', 'keep_alive_timer': 'ka', 'delay_open_timer': 'dopen',
          'idle_hold_timer': 'ihold'}
TEVENT = {'connect_retry_timer': 'connect_retry_time_event', 'hold_timer': 'hold_time_event',
          'keep_alive_timer': 'keep_alive_time_event', 'delay_open_timer': 'delay_open_time_event',
          'idle_hold_timer': 'idle_hold_time_event'}
STAT_KEYS = ['Opens', 'Notifications', 'Updates', 'Keepalives', 'RouteRefresh']


class View(object):
    """Snapshot of the abstract session state as z3 terms / Python values."""
    pass


def flatten_request(state):
    """native request 'state' dict -> {symbol name: concrete value} (the names Session uses)"""
    import binascii
    v = {}
    for k in ('st', 'H', 'KA', 'allow_auto', 'crc', 'peering_status', 'tr_connected', 'tr_disconnecting',
              'P_disconnected', 'fourbytesas', 'n_pending'):
        if k in state:
            v[k] = state[k]
    conf = state.get('conf', {})
    for k in ('cfgH', 'cr_t', 'ih_t', 'do_t', 'cfgKA', 'local_as', 'remote_as', 'now'):
        if k in conf:
            v[k] = conf[k]
    v['conf_rib'] = conf.get('rib', False)
    for sh, t in state.get('timers', {}).items():
        v[sh + '_status'], v[sh + '_active'], v[sh + '_deadline'] = t.get('status'), t.get('active'), t.get('deadline')
    for k, x in state.get('sent', {}).items():
        v['sent_' + k] = x
    for k, x in state.get('recv', {}).items():
        v['recv_' + k] = x
    rb = state.get('rbuf')
    if isinstance(rb, dict) and 'hex' in rb:
        v['rbuf'] = binascii.a2b_hex(rb['hex'])
    v['bgp_id'] = state.get('bgp_id', 0x0a000001)
    if 'caps' in conf:
        from .replay import unj
        v['caps'] = unj(conf['caps'])
    return v


class Session(object):
    def __init__(self, it, with_protocol=True, transport_connected=None, concrete_caps=None, sfx='', peer_id_fork=False,
                 values=None, bgp_id_none=False):
        prog = it.prog
        M = prog.models
        p = it.p
        self.it = it
        fsm_cls = prog.func('yabgp.core.fsm.FSM')
        bgp_cls = prog.func('yabgp.core.protocol.BGP')
        peering_cls = prog.func('yabgp.core.factory.BGPPeering')
        timer_cls = prog.func('yabgp.core.timer.BGPTimer')

        V = flatten_request(values) if values is not None else None

        def I(name, lo=None, hi=None):
            if V is not None:
                return V.get(name, 0)
            v = z3.Int(name + sfx)
            if lo is not None:
                p.assume(v >= lo)
            if hi is not None:
                p.assume(v <= hi)
            return SNum(v)

        def Bv(name):
            if V is not None:
                return bool(V.get(name, False))
            return SBool(z3.Bool(name + sfx))

        def Rv(name):
            if V is not None:
                return float(V.get(name, 0.0))
            return SNum(z3.Real(name + sfx))

        # ---- reactor clock
        self.now = z3.Real('now' + sfx) if V is None else z3.RealVal(repr(float(V.get('now', 0.0))))
        p.assume(self.now >= 0)
        p.ghost['reactor_now'] = self.now
        p.ghost['now'] = self.now

        # ---- CONF
        conf = M.conf
        conf.f.clear()
        self.cfgH = I('cfgH', 0, 65535)
        # A-config: the configured hold time is a legal RFC 4271 value (0 or at least 3 seconds)
        if V is None:
            p.assume(z3.Or(self.cfgH.t == 0, self.cfgH.t >= 3))
        self.cr_t = I('cr_t', 1, 65535)
        self.ih_t = I('ih_t', 0, 65535)
        self.do_t = I('do_t', 0, 65535)
        self.cfgKA = I('cfgKA', 0, 65535)
        conf.f['time'] = Obj('CONFGROUP', {'connect_retry_time': self.cr_t, 'hold_time': self.cfgH,
                                           'keep_alive_time': self.cfgKA, 'delay_open_time': self.do_t,
                                           'idle_hold_time': self.ih_t})
        self.local_as = I('local_as', 1, 2 ** 32 - 1)
        self.remote_as = I('remote_as', 1, 2 ** 32 - 1)
        if V is not None and 'caps' in V:
            concrete_caps = V['caps']
        caps = concrete_caps if concrete_caps is not None else {
            'local': {'afi_safi': [(1, 1)], 'four_bytes_as': True, 'route_refresh': True, 'cisco_route_refresh': True,
                      'enhanced_route_refresh': True, 'graceful_restart': False, 'cisco_multi_session': True,
                      'add_path': None},
            'remote': {}}
        self.caps = caps
        import copy as _copy
        self.caps0 = _copy.deepcopy(caps)
        running = {'remote_as': self.remote_as, 'remote_addr': '10.0.0.2', 'local_as': self.local_as,
                   'local_addr': '10.0.0.1', 'md5': None, 'afi_safi': ['ipv4'], 'capability': caps}
        self.rib = Bv('conf_rib')
        conf.f['bgp'] = Obj('CONFGROUP', {'afi_safi': ['ipv4'], 'rib': self.rib, 'running_config': running,
                                          'local_as': self.local_as, 'remote_as': self.remote_as})
        conf.f['message'] = Obj('CONFGROUP', {'write_disk': False, 'write_dir': '/data/', 'write_msg_max_size': 500,
                                              'write_keepalive': False})

        # ---- handler (application callbacks = Report effects)
        self.handler = Obj('Handler', {'inter_mq': Obj('Queue', {'n': I('mq_n', 0)})}, tag='handler')

        # ---- peering
        self.bgp_id = Opaque('bgp_id')
        peering = Obj(peering_cls, tag='peering')
        self.peering = peering
        from . import strings as STR
        if V is not None:
            self.peer_id0 = values.get('peer_id')
        else:
            self.peer_id0 = None if (peer_id_fork and p.branch(z3.Bool('peering_peer_id_none' + sfx))) else STR.ip4(I('peering_peer_id', 0, 2 ** 32 - 1))
        peering.f.update({'my_asn': self.local_as, 'my_addr': '10.0.0.1', 'peer_addr': '10.0.0.2',
                          'peer_id': self.peer_id0, 'bgp_id': (None if bgp_id_none else I('bgp_id', 0, 2 ** 32 - 1)), 'peer_asn': self.remote_as,
                          'afi_safi': ['ipv4'], 'md5': None, 'status': Bv('peering_status'),
                          'handler': self.handler, 'estab_protocol': None})
        # ghost state (C12): outstanding connectTCP attempts
        self.n_pending0 = I('n_pending', 0)
        self.ghost = Obj('Ghost', {'n_pending': self.n_pending0}, tag='ghost')
        peering.f['_ghost'] = self.ghost
        # ---- fsm
        fsm = Obj(fsm_cls, tag='fsm')
        self.fsm = fsm
        peering.f['fsm'] = fsm
        self.st = I('st', 1, 6)
        self.H = I('H', 0, 65535)
        self.KA = Rv('KA')
        if V is None:
            p.assume(self.KA.t >= 0)
        self.allow_auto = Bv('allow_auto')
        self.crc = I('crc', 0)
        fsm.f.update({'bgp_peering': peering, 'protocol': None, 'state': self.st, 'connect_retry_counter': self.crc,
                      'connect_retry_time': self.cr_t, 'hold_time': self.H, 'keep_alive_time': self.KA,
                      'allow_automatic_start': self.allow_auto, 'allow_automatic_stop': False,
                      'delay_open': False, 'delay_open_time': self.do_t, 'idle_hold_time': self.ih_t,
                      'uptime': None})
        self.timers = {}
        for tn in TIMERS:
            s = TSHORT[tn]
            t = Obj(timer_cls, tag=s + '_timer')
            status, active = Bv(s + '_status'), Bv(s + '_active')
            deadline = Rv(s + '_deadline')
            if V is None:
                p.assume(z3.Implies(active.t, status.t))          # representation invariant of BGPTimer
                p.assume(z3.Implies(active.t, deadline.t >= self.now))
            t.f.update({'name': tn, 'status': status, '_active': active, '_deadline': deadline,
                        'callable': BoundMethod(fsm_cls.lookup(TEVENT[tn]), fsm)})
            if V is not None:
                # concrete (witness) mode: the real BGPTimer code runs on the DelayedCall representation
                del t.f['_active'], t.f['_deadline']
                if active:
                    t.f['delayed_call'] = Obj('DelayedCall', {'called': False, 'cancelled': False, 'time': deadline,
                                                              'fn': t.f['callable'], 'args': ()})
                elif status:
                    t.f['delayed_call'] = Obj('DelayedCall', {'called': True, 'cancelled': False, 'time': deadline,
                                                              'fn': t.f['callable'], 'args': ()})
                else:
                    t.f['delayed_call'] = None
            fsm.f[tn] = t
            self.timers[s] = t
        # ---- protocol (current connection), optional
        self.P = None
        if with_protocol:
            P = Obj(bgp_cls, tag='P')
            self.P = P
            conn = I('tr_connected', 0, 1) if transport_connected is None else transport_connected
            self.transport = Obj('Transport', {'connected': conn, 'disconnecting': Bv('tr_disconnecting')},
                                 tag='transport')
            self.buf = SBytes.fresh('rbuf') if V is None else V.get('rbuf', b'')
            self.sent = {k: I('sent_' + k, 0) for k in STAT_KEYS}
            self.recv = {k: I('recv_' + k, 0) for k in STAT_KEYS}
            P.f.update({'fsm': fsm, 'factory': peering, 'bgp_peering': peering, 'transport': self.transport,
                        'peer_id': None, 'disconnected': Bv('P_disconnected'),
                        '_receive_buffer': self.buf, 'fourbytesas': Bv('fourbytesas'),
                        'add_path_ipv4_receive': Bv('ap4rx'), 'add_path_ipv4_send': Bv('ap4tx'),
                        'adj_rib_in': {'ipv4': {}}, 'adj_rib_out': {'ipv4': {}},
                        'adj_rib_in_ipv4_tree': Obj('Radix'),
                        'msg_sent_stat': dict(self.sent), 'msg_recv_stat': dict(self.recv),
                        'send_version': {k: I('sv_' + k, 0) for k in ('ipv4', 'flowspec', 'sr_policy', 'mpls_vpn')},
                        'receive_version': {k: I('rv_' + k, 0) for k in ('ipv4', 'flowspec', 'sr_policy', 'mpls_vpn')},
                        'flowspec_send_dict': {}, 'flowspec_receive_dict': {}, 'sr_send_dict': {},
                        'sr_receive_dict': {}, 'mpls_vpn_send_dict': {}, 'mpls_vpn_receive_dict': {}})
            fsm.f['protocol'] = P
            peering.f['estab_protocol'] = P
        self.timers_pre = {sh: dict(t.f) for sh, t in self.timers.items()}
        self.pre = self.snap() if V is None else {}

    # ---- snapshots
    def snap(self):
        """(name -> z3 term or python value) of every abstract state component, read from the heap NOW"""
        d = {}
        f = self.fsm.f
        d['st'] = f['state']
        d['allow_auto'] = f['allow_automatic_start']
        d['H'] = f['hold_time']
        d['KA'] = f['keep_alive_time']
        d['crc'] = f['connect_retry_counter']
        d['fsm.protocol'] = f['protocol']
        d['estab_protocol'] = self.peering.f['estab_protocol']
        d['peering.status'] = self.peering.f['status']
        d['peering.peer_id'] = self.peering.f['peer_id']
        d['peering.bgp_id'] = self.peering.f['bgp_id']
        for s, t in self.timers.items():
            d[s + '.status'] = t.f['status']
            d[s + '.active'] = t.f['_active']
            d[s + '.deadline'] = t.f['_deadline']
        if self.P is not None:
            P = self.P.f
            d['P.disconnected'] = P['disconnected']
            d['P.buffer'] = P['_receive_buffer']
            d['P.fourbytesas'] = P['fourbytesas']
            d['P.ap4rx'] = P['add_path_ipv4_receive']
            d['P.ap4tx'] = P['add_path_ipv4_send']
            d['P.peer_id'] = P['peer_id']
            d['tr.connected'] = self.transport.f['connected']
            d['tr.disconnecting'] = self.transport.f['disconnecting']
            for k in STAT_KEYS:
                d['sent.' + k] = P['msg_sent_stat'][k]
                d['recv.' + k] = P['msg_recv_stat'][k]
        return d


def install_handler_model(M):
    """Application handler and Queue: every callback is a Report effect (T1: callbacks do not raise —
    DefaultHandler's callbacks are verified separately under C20)."""
    def handler_attr(it, h, attr):
        if attr in h.f:
            return h.f[attr]

        def cb(it, a, kw, attr=attr):
            it.p.effect('Report', attr, tuple(a), dict(kw))
            return None
        return Builtin('handler.' + attr, cb)
    M.obj_attr_handlers['Handler'] = handler_attr

    def queue_attr(it, q, attr):
        if attr == 'empty':
            return Builtin('Queue.empty', lambda it, a, kw: mk_bool(to_term(q.f['n']) == 0))
        if attr == 'get':
            def get(it, a, kw):
                q.f['n'] = mk_num(to_term(q.f['n']) - 1)
                it.p.effect('QueueGet')
                return Opaque('queued message', 'dict')
            return Builtin('Queue.get', get)
        if attr == 'put':
            def put(it, a, kw):
                q.f['n'] = mk_num(to_term(q.f['n']) + 1)
            return Builtin('Queue.put', put)
        return _MISSING
    M.obj_attr_handlers['Queue'] = queue_attr
