"""pyvc — contract verifier for the real yabgp sources (see DESIGN.md section 2)."""
from .interp import Program, Interp


def make_program(repo=None):
    from .models import Models
    prog = Program(repo)
    Models(prog)
    return prog
