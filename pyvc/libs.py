"""pyvc.libs — models of the libraries /repo uses (trusted base T3; validated by selftest/axioms_validate.py)."""
import z3

from .values import (SNum, SBool, SBytes, Opaque, OpaqueSeq, Obj, Unsupported, CUR, to_term, mk_num, mk_bool, fresh_name)
from .interp import (PyExc, raise_builtin, BEXC, BCls, Cls, Func, BoundMethod, Builtin, ExtModule, Module, _MISSING)
from . import strings as S
from .strings import SStr, Atom
from .models import (parse_fmt, fmt_size, STRUCT_W, SIGNED, NetIP, isnum, is_bytes, is_str, all_concrete, TypeRef)
from .methods import HexBytes


def install(M):
    ext = M.ext

    # ------------------------------------------------------------ struct
    def pack_int(it, v, w, signed=False, what='struct.error'):
        if isinstance(v, Opaque):
            it.opaque('pack of opaque')
            if it.branch(z3.Bool(fresh_name('opq_pack_fails'))):
                raise_builtin('struct.error', 'opaque')
            return SBytes.fresh('opqpack').slice(0, w) if False else _fresh_fixed(it, w)
        if isinstance(v, (float,)) or (isinstance(v, SNum) and v.is_real) or not isnum(v):
            raise_builtin('struct.error', 'required argument is not an integer')
        lo, hi = (-(256 ** w) // 2, (256 ** w) // 2) if signed else (0, 256 ** w)
        if isinstance(v, (int, bool)):
            if not (lo <= int(v) < hi):
                raise_builtin(what, 'argument out of range')
            return int(v).to_bytes(w, 'big', signed=signed)
        t = to_term(v)
        if not it.branch(z3.And(t >= lo, t < hi)):
            raise_builtin(what, 'argument out of range')
        if signed:
            t = z3.If(t < 0, t + 256 ** w, t)
        from .values import digits_hint
        octs = digits_hint(t, w)
        if octs is not None:
            def at_h(i, octs=octs):
                if z3.is_int_value(i):
                    k = i.as_long()
                    return octs[k] if 0 <= k < len(octs) else z3.IntVal(0)
                e = z3.IntVal(0)
                for k in range(len(octs) - 1, -1, -1):
                    e = z3.If(i == k, octs[k], e)
                return e
            return SBytes(w, at_h)

        def at(i, t=t, w=w):
            if z3.is_int_value(i):
                k = i.as_long()
                if 0 <= k < w:
                    return z3.simplify((t / (256 ** (w - 1 - k))) % 256)
                return z3.IntVal(0)
            e = z3.IntVal(0)
            for k in range(w - 1, -1, -1):
                e = z3.If(i == k, (t / (256 ** (w - 1 - k))) % 256, e)
            return e
        return SBytes(w, at)

    def _fresh_fixed(it, w):
        sb = SBytes.fresh('opqpack')
        it.p.assume(sb.len == w)
        return sb.slice(0, w)
    M.struct_pack_int = lambda it, v, w: pack_int(it, v, w, False, 'OverflowError')

    def struct_pack(it, a, kw):
        fmt = a[0]
        if not isinstance(fmt, str):
            if isinstance(fmt, Opaque):
                return it.opaque_call('struct.pack with opaque format')
            raise Unsupported('symbolic struct format')
        fs = parse_fmt(fmt)
        vals = list(a[1:])
        nvals = sum(1 for c in fs if not (isinstance(c, tuple) and c[0] == 'x'))
        if nvals != len(vals):
            raise_builtin('struct.error', 'pack expected %d items for packing (got %d)' % (nvals, len(vals)))
        res = b''
        vi = 0
        for c in fs:
            if isinstance(c, tuple):
                if c[0] == 'x':
                    piece = b'\x00' * c[1]
                else:
                    v = vals[vi]
                    vi += 1
                    if not is_bytes(v):
                        if isinstance(v, Opaque):
                            return it.opaque_call('struct.pack s with opaque')
                        raise_builtin('struct.error', "argument for 's' must be a bytes object")
                    n = c[1]
                    if isinstance(v, (bytes, bytearray)):
                        piece = bytes(v)[:n].ljust(n, b'\x00')
                    else:
                        ln = v.len

                        def at(i, v=v, ln=ln):
                            return z3.If(i < ln, v.at(i), z3.IntVal(0))
                        piece = SBytes(n, at)
            elif c in 'fd':
                v = vals[vi]
                vi += 1
                if isinstance(v, (int, float)) and not isinstance(v, bool):
                    import struct as _s
                    try:
                        piece = _s.pack('!' + c, v)
                    except (_s.error, OverflowError) as e:
                        raise_builtin('struct.error' if isinstance(e, _s.error) else 'OverflowError', str(e))
                else:
                    raise Unsupported('struct.pack float with symbolic value')
            else:
                v = vals[vi]
                vi += 1
                piece = pack_int(it, v, STRUCT_W[c], c in SIGNED)
            res = M.binop(it, 'Add', res, piece)
        return res

    def struct_unpack(it, a, kw):
        fmt, data = a[0], a[1]
        if isinstance(fmt, SStr) or isinstance(fmt, Opaque):
            if it.light:
                # '!%dH' % n style repeat counts: a tuple of unknown length, or struct.error
                if it.branch(z3.Bool(fresh_name('opq_struct_error'))):
                    raise_builtin('struct.error', 'unpack requires a buffer of the right size')
                n = z3.Int(fresh_name('unpacked_n'))
                it.p.assume(n >= 0)
                it.p.opaque_ops += 1
                return OpaqueSeq(n, 'struct.unpack with symbolic repeat count', 'tuple')
            raise Unsupported('symbolic struct format')
        if isinstance(data, Opaque):
            return it.opaque_call('struct.unpack of opaque')
        if not is_bytes(data):
            raise_builtin('TypeError', 'a bytes-like object is required')
        fs = parse_fmt(fmt)
        total = fmt_size(fs)
        if isinstance(data, (bytes, bytearray)):
            import struct as _s
            try:
                return _s.unpack(fmt, bytes(data))
            except _s.error as e:
                raise_builtin('struct.error', str(e))
        b = data
        if not it.branch(b.len == total):
            raise_builtin('struct.error', 'unpack requires a buffer of %d bytes' % total)
        out = []
        off = 0
        for c in fs:
            if isinstance(c, tuple):
                if c[0] == 's':
                    out.append(b.slice(off, off + c[1]))
                off += c[1]
                continue
            if c in 'fd':
                if it.light:
                    out.append(it.opaque('float from struct.unpack', 'float'))
                    off += 4 if c == 'f' else 8
                    continue
                raise Unsupported('struct.unpack float')
            w = STRUCT_W[c]
            v = b.be_int(off, w)
            if c in SIGNED:
                v = z3.If(v >= (256 ** w) // 2, v - 256 ** w, v)
            out.append(mk_num(v))
            off += w
        return tuple(out)

    def struct_calcsize(it, a, kw):
        return fmt_size(parse_fmt(a[0]))
    ext['struct'] = ExtModule('struct', {
        'pack': Builtin('struct.pack', struct_pack), 'unpack': Builtin('struct.unpack', struct_unpack),
        'calcsize': Builtin('struct.calcsize', struct_calcsize), 'error': BEXC['struct.error']})

    # ------------------------------------------------------------ binascii
    def b2a_hex(it, a, kw):
        v = a[0]
        if isinstance(v, (bytes, bytearray)):
            import binascii
            return binascii.b2a_hex(bytes(v))
        if isinstance(v, SBytes):
            return HexBytes(v)
        if isinstance(v, Opaque):
            return it.opaque_call('b2a_hex of opaque')
        raise_builtin('TypeError', 'a bytes-like object is required')

    def a2b_hex(it, a, kw):
        v = a[0]
        import binascii
        if isinstance(v, (bytes, bytearray, str)):
            try:
                return binascii.a2b_hex(v)
            except (binascii.Error, ValueError) as e:
                raise_builtin('binascii.Error', str(e))
        if isinstance(v, HexBytes):
            return v.src
        if isinstance(v, SStr):
            at = v.single_atom()
            if at is not None and at.kind == 'hex':
                return at.t
            return M.unhexlify_sstr(it, v)
        if isinstance(v, Opaque):
            return it.opaque_call('a2b_hex of opaque')
        raise Unsupported('a2b_hex(%s)' % type(v).__name__)
    ext['binascii'] = ExtModule('binascii', {
        'b2a_hex': Builtin('binascii.b2a_hex', b2a_hex), 'hexlify': Builtin('binascii.hexlify', b2a_hex),
        'a2b_hex': Builtin('binascii.a2b_hex', a2b_hex), 'unhexlify': Builtin('binascii.unhexlify', a2b_hex),
        'Error': BEXC['binascii.Error'],
        'b2a_uu': Builtin('binascii.b2a_uu', lambda it, a, kw: it.opaque_call('b2a_uu'))})

    def unhexlify_sstr(it, v):
        # '0x'-stripped hex(int) text:  hex(n)[2:]  ->  SStr([hexint atom])
        at = v.single_atom()
        if at is not None and at.kind == 'hexint' and at.extra == ('', 'x'):
            # number of hex digits of n (n >= 0): odd length -> binascii.Error
            n = at.t
            digits = it.p.concretize(hexdigits_term(n), limit=40, what='hex digit count')
            if digits % 2:
                raise_builtin('binascii.Error', 'Odd-length string')
            w = digits // 2
            return pack_int(it, mk_num(n), w)
        # zero padding in front of hex(n)[2:]:  '000' + hexdigits(n)
        if len(v.parts) == 2 and isinstance(v.parts[0], str) and set(v.parts[0]) <= {'0'} and isinstance(v.parts[1], Atom) and \
                v.parts[1].kind == 'hexint' and v.parts[1].extra == ('', 'x'):
            n = v.parts[1].t
            digits = len(v.parts[0]) + it.p.concretize(hexdigits_term(n), limit=40, what='hex digit count')
            if digits % 2:
                raise_builtin('binascii.Error', 'Odd-length string')
            w = digits // 2
            return pack_int(it, mk_num(n), w)
        raise Unsupported('unhexlify of structured string')
    M.unhexlify_sstr = unhexlify_sstr

    def hexdigits_term(n):
        # number of hex digits of n >= 0 (1 for n == 0), for n < 16^34
        e = z3.IntVal(34)
        for d in range(33, 0, -1):
            e = z3.If(n < 16 ** d, z3.IntVal(d), e)
        return e
    M.hexdigits_term = hexdigits_term

    # ------------------------------------------------------------ netaddr
    def ip_from_text(it, txt):
        """concrete/structured text -> NetIP or AddrFormatError"""
        import ipaddress
        if isinstance(txt, str):
            try:
                ip = ipaddress.ip_address(txt)
            except ValueError:
                # netaddr accepts some legacy forms (e.g. '1.2.3' inet_aton style); reject conservatively
                parts = txt.split('.')
                if 1 <= len(parts) < 4 and all(p.isdigit() for p in parts):
                    raise Unsupported('netaddr legacy IPv4 text form %r' % txt)
                raise_builtin('AddrFormatError', 'failed to detect a valid IP address from %r' % txt)
            return NetIP(ip.version, int(ip))
        a = txt.single_atom() if isinstance(txt, SStr) else None
        if a is not None and a.kind == 'ip4':
            return NetIP(4, mk_num(a.t))
        if a is not None and a.kind == 'ip6':
            return NetIP(6, mk_num(a.t))
        if isinstance(txt, SStr):
            # text that structurally cannot be an address (contains '/' literal etc.)
            for p in txt.parts:
                if isinstance(p, str) and any(c not in '0123456789abcdefABCDEF:.' for c in p):
                    raise_builtin('AddrFormatError', 'invalid address text')
        raise Unsupported('netaddr.IPAddress of structured text %r' % (txt,))

    def IPAddress(it, a, kw):
        v = a[0]
        version = a[1] if len(a) > 1 else kw.get('version')
        if isinstance(v, NetIP):
            return NetIP(v.version, v.value)
        if isinstance(v, Opaque):
            r = it.opaque_call('IPAddress of opaque')
            return r
        if is_str(v):
            return ip_from_text(it, v)
        if isinstance(v, (int, SNum)) and not isinstance(v, bool):
            t = to_term(v)
            if isinstance(v, SNum) and v.is_real:
                raise Unsupported('IPAddress(real)')
            if version == 4:
                if not it.branch(z3.And(t >= 0, t < 2 ** 32)):
                    raise_builtin('AddrFormatError', 'bad address')
                return NetIP(4, v)
            if version == 6:
                if not it.branch(z3.And(t >= 0, t < 2 ** 128)):
                    raise_builtin('AddrFormatError', 'bad address')
                return NetIP(6, v)
            if not it.branch(z3.And(t >= 0, t < 2 ** 128)):
                raise_builtin('AddrFormatError', 'bad address')
            if it.branch(t < 2 ** 32):
                return NetIP(4, v)
            return NetIP(6, v)
        if v is None or is_bytes(v) or isinstance(v, (list, tuple, dict, float, bool)):
            raise_builtin('AddrFormatError', 'bad address type')
        raise Unsupported('IPAddress(%s)' % type(v).__name__)

    def IPNetwork(it, a, kw):
        v = a[0]
        if isinstance(v, Opaque):
            return it.opaque_call('IPNetwork of opaque')
        if isinstance(v, NetIP):
            return NetIP(v.version, v.value, v.prefixlen if v.prefixlen is not None else (32 if v.version == 4 else 128))
        if not is_str(v):
            raise_builtin('AddrFormatError', 'bad network')
        if isinstance(v, str):
            import ipaddress
            try:
                n = ipaddress.ip_interface(v)
            except ValueError:
                raise_builtin('AddrFormatError', 'invalid IPNetwork %r' % v)
            return NetIP(n.version, int(n.ip), n.network.prefixlen)
        parts = S.split(v, '/') if S.contains_char(v, '/') else [v]
        if len(parts) > 2:
            raise_builtin('AddrFormatError', 'invalid IPNetwork')
        ip = ip_from_text(it, parts[0])
        if len(parts) == 1:
            return NetIP(ip.version, ip.value, 32 if ip.version == 4 else 128)
        pl = it.call(M.builtins['int'], [parts[1]], {}) if not isinstance(parts[1], str) else None
        if pl is None:
            if not parts[1].isdigit():
                raise Unsupported('IPNetwork with netmask text')
            pl = int(parts[1])
        maxl = 32 if ip.version == 4 else 128
        if not it.branch(z3.And(to_term(pl) >= 0, to_term(pl) <= maxl)):
            raise_builtin('AddrFormatError', 'invalid prefix length')
        return NetIP(ip.version, ip.value, pl)

    def EUI(it, a, kw):
        v = a[0]
        if isinstance(v, int):
            if not (0 <= v < 2 ** 48):
                raise Unsupported('EUI-64')
            return MacVal(v)
        if isinstance(v, SNum):
            if not it.branch(z3.And(v.t >= 0, v.t < 2 ** 48)):
                if it.light:
                    return it.opaque_call('EUI of a value outside 48 bits')
                raise Unsupported('EUI outside 48 bits')
            return MacVal(v)
        if isinstance(v, str):
            hexd = v.replace('-', '').replace(':', '').replace('.', '')
            if len(hexd) == 12:
                try:
                    return MacVal(int(hexd, 16))
                except ValueError:
                    pass
            raise_builtin('AddrFormatError', 'bad MAC')
        if isinstance(v, SStr):
            at = v.single_atom()
            if at is not None and at.kind == 'mac':
                return MacVal(mk_num(at.t))
        if isinstance(v, Opaque):
            return it.opaque_call('EUI of opaque')
        raise Unsupported('EUI(%s)' % type(v).__name__)
    core = ExtModule('netaddr.core', {'AddrFormatError': BEXC['AddrFormatError']})
    ext['netaddr'] = ExtModule('netaddr', {
        'IPAddress': Builtin('netaddr.IPAddress', IPAddress), 'IPNetwork': Builtin('netaddr.IPNetwork', IPNetwork),
        'EUI': Builtin('netaddr.EUI', EUI), 'core': core, 'AddrFormatError': BEXC['AddrFormatError']})
    ext['netaddr.core'] = core

    class MacVal(object):
        def __init__(self, value):
            self.value = value
    M.MacVal = MacVal

    def lib_value_attr(it, base, attr):
        if isinstance(base, NetIP):
            if attr == 'version':
                return base.version
            if attr == 'value':
                return base.value
            if attr == 'packed':
                return pack_int(it, base.value, 4 if base.version == 4 else 16)
            if attr == 'prefixlen':
                return base.prefixlen
            if attr == 'ip':
                return NetIP(base.version, base.value)
            if attr == 'info':
                return {('IPv4' if base.version == 4 else 'IPv6'): [{'prefix': 'modelled'}]}
            if attr == 'network':
                raise Unsupported('IPNetwork.network')
            if attr in ('is_unicast', 'is_multicast', 'words', 'bits', 'format'):
                raise Unsupported('IPAddress.%s' % attr)
            raise_builtin('AttributeError', attr)
        if isinstance(base, MacVal):
            if attr == 'value':
                return base.value
            if attr == 'packed':
                return pack_int(it, base.value, 6)
            raise Unsupported('EUI.%s' % attr)
        return _MISSING
    M.lib_value_attr = lib_value_attr

    _orig_to_str = M.to_str

    def to_str(it, v):
        if isinstance(v, MacVal):
            if isinstance(v.value, int):
                h = '%012X' % v.value
                return '-'.join(h[i:i + 2] for i in range(0, 12, 2))
            return SStr([Atom('mac', to_term(v.value))])
        return _orig_to_str(it, v)
    M.to_str = to_str

    _orig_equal = M.equal

    def equal(it, a, b):
        if isinstance(a, MacVal) and isinstance(b, MacVal):
            return _orig_equal(it, a.value, b.value)
        return _orig_equal(it, a, b)
    M.equal = equal

    # ------------------------------------------------------------ math / time / logging / traceback / copy
    def m_ceil(it, a, kw):
        v = a[0]
        if isinstance(v, (int, float)):
            import math
            return math.ceil(v)
        if isinstance(v, SNum):
            if not v.is_real:
                return v
            return mk_num(-z3.ToInt(-v.t))
        if isinstance(v, Opaque):
            return it.opaque_call('ceil of opaque')
        raise_builtin('TypeError', 'must be real number')

    def m_floor(it, a, kw):
        v = a[0]
        if isinstance(v, (int, float)):
            import math
            return math.floor(v)
        if isinstance(v, SNum):
            return v if not v.is_real else mk_num(z3.ToInt(v.t))
        if isinstance(v, Opaque):
            return it.opaque_call('floor of opaque')
        raise_builtin('TypeError', 'must be real number')
    ext['math'] = ExtModule('math', {'ceil': Builtin('math.ceil', m_ceil), 'floor': Builtin('math.floor', m_floor)})

    def t_time(it, a, kw):
        p = it.p
        prev = p.ghost.get('now')
        t = z3.Real(fresh_name('now'))
        if prev is not None:
            p.assume(t >= prev)
        else:
            p.assume(t >= 0)
        p.ghost['now'] = t
        return SNum(t)
    M.time_now = t_time
    ext['time'] = ExtModule('time', {'time': Builtin('time.time', t_time),
                                     'sleep': Builtin('time.sleep', lambda it, a, kw: None),
                                     'strftime': Builtin('time.strftime', lambda it, a, kw: it.opaque('strftime', 'str')),
                                     'localtime': Builtin('time.localtime', lambda it, a, kw: it.opaque('localtime'))})

    noop = Builtin('noop', lambda it, a, kw: None)
    logger = Obj('Logger', tag='LOG')
    M.obj_attr_handlers = dict(M.obj_attr_handlers)
    M.obj_attr_handlers['Logger'] = lambda it, o, attr: noop
    ext['logging'] = ExtModule('logging', {
        'getLogger': Builtin('logging.getLogger', lambda it, a, kw: logger),
        'DEBUG': 10, 'INFO': 20, 'WARNING': 30, 'ERROR': 40, 'CRITICAL': 50,
        'basicConfig': noop, 'Formatter': Builtin('Formatter', lambda it, a, kw: Opaque('Formatter')),
        'StreamHandler': Builtin('StreamHandler', lambda it, a, kw: Opaque('handler'))})
    ext['traceback'] = ExtModule('traceback', {
        'format_exc': Builtin('traceback.format_exc', lambda it, a, kw: Opaque('traceback text', 'str')),
        'print_exc': noop})

    def deepcopy(it, a, kw):
        def cp(v, memo):
            if isinstance(v, dict):
                if id(v) in memo:
                    return memo[id(v)]
                d = {}
                memo[id(v)] = d
                for k, x in v.items():
                    d[k] = cp(x, memo)
                return d
            if isinstance(v, list):
                if id(v) in memo:
                    return memo[id(v)]
                L = []
                memo[id(v)] = L
                L.extend(cp(x, memo) for x in v)
                return L
            if isinstance(v, tuple):
                return tuple(cp(x, memo) for x in v)
            if isinstance(v, Obj):
                raise Unsupported('deepcopy of object')
            return v
        return cp(a[0], {})
    ext['copy'] = ExtModule('copy', {'deepcopy': Builtin('copy.deepcopy', deepcopy),
                                     'copy': Builtin('copy.copy', lambda it, a, kw: (
                                         dict(a[0]) if isinstance(a[0], dict) else list(a[0]) if isinstance(a[0], list)
                                         else a[0]))})

    # ------------------------------------------------------------ oslo_config
    cfgmod = ExtModule('oslo_config.cfg', {'CONF': M.conf})
    for nm in ('StrOpt', 'IntOpt', 'BoolOpt', 'ListOpt', 'IPOpt', 'PortOpt', 'DictOpt', 'MultiStrOpt', 'FloatOpt',
               'OptGroup', 'SubCommandOpt'):
        cfgmod.attrs[nm] = Builtin('cfg.' + nm, lambda it, a, kw: Opaque('cfg opt'))
    ext['oslo_config'] = ExtModule('oslo_config', {'cfg': cfgmod})
    ext['oslo_config.cfg'] = cfgmod

    def conf_attr(it, o, attr):
        if attr in ('register_cli_opts', 'register_opts', 'register_group', 'register_cli_opt', 'register_opt',
                    'import_opt', 'set_default', 'set_override'):
            return noop
        if o.tag != 'CONF' and attr in o.f:
            return o.f[attr]
        raise Unsupported('CONF attribute %s not provided by the contract pre-state' % attr)
    M.obj_attr_handlers['CONF'] = conf_attr
    M.obj_attr_handlers['CONFGROUP'] = conf_attr

    # ------------------------------------------------------------ twisted (environment contract T1)
    from . import twisted_model
    twisted_model.install(M)

    # ------------------------------------------------------------ misc stdlib: treated as opaque / minimal
    ext['sys'] = ExtModule('sys', {'exit': Builtin('sys.exit', lambda it, a, kw: _sys_exit(it, a)),
                                   'version_info': (3, 12, 1), 'argv': ['yabgpd'],
                                   'maxsize': 2 ** 63 - 1, 'path': [], 'stdout': Opaque('stdout'),
                                   'stderr': Opaque('stderr'), 'platform': 'linux'})

    def _sys_exit(it, a):
        if CUR.path is not None:
            CUR.path.effect('Exit')
        raise PyExc(Obj(BEXC['SystemExit'], {'args': tuple(a)}))
    for nm in ('socket', 'platform', 're', 'itertools', 'functools', 'collections', 'threading', 'queue', 'Queue',
               'signal', 'errno', 'contextlib', 'six', 'builtins', 'ipaddress', 'flask', 'flask_httpauth',
               'werkzeug', 'radix', 'simplejson', 'pymongo', 'pika', 'requests', 'six.moves', 'argparse',
               'datetime', 'subprocess', 'shutil', 'string', 'random', 'hashlib', 'uuid', 'io', 'abc', 'types',
               'enum', 'typing', 'warnings', 'inspect', 'textwrap', 'pprint', 'operator', 'binhex', 'codecs',
               'unittest', 'mock', 'pbr', 'pbr.version', 'urllib', 'urllib.parse'):
        if nm not in ext:
            ext[nm] = ExtModule(nm)
    ext['builtins'].attrs['range'] = M.builtins['range']
    ext['socket'].attrs.update({'AF_INET': 2, 'AF_INET6': 10, 'IPPROTO_TCP': 6, 'error': BEXC['socket.error']})
    # ---- flask / flask_httpauth (T3: routing and HTTP basic auth are assumed to behave as documented;
    #      decorators are transparent for the body, the decorator LISTS are what C16 inspects in the AST)
    flask_req = Obj('FlaskRequest', {'url': 'http://127.0.0.1:8801/v1/', 'query_string': b'', 'method': 'POST',
                                     'json': None, 'environ': {}, 'args': {}}, tag='flask.request')
    M.flask_request = flask_req

    def freq_attr(it, o, attr):
        if attr == 'get_json':
            return Builtin('request.get_json', lambda it, a, kw: o.f['json'])
        return _MISSING
    M.obj_attr_handlers['FlaskRequest'] = freq_attr

    def jsonify(it, a, kw):
        return Obj('JsonResponse', {'data': a[0] if a else dict(kw)})
    M.obj_attr_handlers['JsonResponse'] = lambda it, o, attr: _MISSING
    transparent = Builtin('decorator', lambda it, a, kw: a[0])

    def deco_factory(it, a, kw):
        return transparent

    def blueprint_attr(it, o, attr):
        if attr == 'route':
            return Builtin('Blueprint.route', deco_factory)
        return _MISSING
    M.obj_attr_handlers['Blueprint'] = blueprint_attr

    def auth_attr(it, o, attr):
        if attr in ('login_required', 'get_password', 'verify_password', 'error_handler'):
            return transparent
        return _MISSING
    M.obj_attr_handlers['HTTPBasicAuth'] = auth_attr
    ext['flask'].attrs.update({'request': flask_req, 'jsonify': Builtin('flask.jsonify', jsonify),
                               'Blueprint': Builtin('Blueprint', lambda it, a, kw: Obj('Blueprint', {'name': a[0] if a else ''})),
                               'Flask': Builtin('Flask', lambda it, a, kw: Obj('FlaskApp', {}))})
    ext['flask_httpauth'].attrs['HTTPBasicAuth'] = Builtin('HTTPBasicAuth', lambda it, a, kw: Obj('HTTPBasicAuth', {}))

    def wraps(it, a, kw):
        return transparent
    ext['functools'].attrs['wraps'] = Builtin('functools.wraps', wraps)
    # radix tree: opaque container (outside every property; C19 states the assumption)
    def radix_attr(it, o, attr):
        if attr in ('add', 'delete'):
            return Builtin('Radix.' + attr, lambda it, a, kw: it.p.effect('Radix.' + attr, a[0]) if CUR.path else None)
        if attr in ('search_exact', 'search_best'):
            return Builtin('Radix.' + attr, lambda it, a, kw: Opaque('radix node'))
        return _MISSING
    M.obj_attr_handlers['Radix'] = radix_attr
    ext['radix'].attrs['Radix'] = Builtin('Radix', lambda it, a, kw: Obj('Radix'))
    M.obj_attr_handlers['Reason'] = lambda it, o, attr: (
        Builtin('Reason.getErrorMessage', lambda it, a, kw: 'connection failed') if attr == 'getErrorMessage' else _MISSING)
    from . import fs_model
    fs_model.install(M)
