"""pyvc.strings — structured strings (no SMT string theory).

An SStr is a concatenation of parts; a part is a literal `str` or an Atom:

  dec(t)      decimal rendering of the integer term t (t >= 0 is a side condition recorded on the path)
  ip4(t)      dotted quad of the 32-bit value t
  ip6(t)      netaddr/ipaddress canonical text of the 128-bit value t (treated as an injective opaque rendering)
  hex(sb)     lower-case hex rendering of the byte string sb (2 digits per octet)
  mac(t)      netaddr EUI dash form of a 48-bit value
  opq(name)   unknown text (input strings about which nothing is assumed)

All operations are structural; whatever cannot be decided structurally raises Unsupported (function
UNDECIDED), it is never guessed.
"""
import z3
from .values import SNum, SBytes, Unsupported, to_term, mk_num


class Atom(object):
    __slots__ = ('kind', 't', 'extra')

    def __init__(self, kind, t, extra=None):
        self.kind, self.t, self.extra = kind, t, extra

    def __repr__(self):
        return '%s(%s)' % (self.kind, self.t)

    def same(self, o):
        if not isinstance(o, Atom) or o.kind != self.kind:
            return False
        if isinstance(self.t, SBytes) or isinstance(o.t, SBytes):
            return self.t is o.t
        return z3.is_expr(self.t) and z3.is_expr(o.t) and self.t.eq(o.t)


class SStr(object):
    def __init__(self, parts):
        out = []
        for p in parts:
            if isinstance(p, SStr):
                ps = p.parts
            else:
                ps = [p]
            for q in ps:
                if isinstance(q, str):
                    if q == '':
                        continue
                    if out and isinstance(out[-1], str):
                        out[-1] = out[-1] + q
                    else:
                        out.append(q)
                else:
                    out.append(q)
        self.parts = out

    def __repr__(self):
        return 'SStr(%r)' % (self.parts,)

    def single_atom(self):
        if len(self.parts) == 1 and isinstance(self.parts[0], Atom):
            return self.parts[0]
        return None


def norm(s):
    """SStr -> plain str when fully literal"""
    if isinstance(s, SStr):
        if not s.parts:
            return ''
        if len(s.parts) == 1 and isinstance(s.parts[0], str):
            return s.parts[0]
    return s


def dec(v):
    if isinstance(v, bool):
        return str(v)
    if isinstance(v, int):
        return str(v)
    if isinstance(v, SNum):
        if v.is_real:
            return SStr([Atom('real', v.t)])      # repr of a float: opaque text determined by the value
        return SStr([Atom('dec', v.t)])
    raise Unsupported('dec(%s)' % type(v).__name__)


def ip4(v):
    if isinstance(v, int):
        return '%d.%d.%d.%d' % ((v >> 24) & 255, (v >> 16) & 255, (v >> 8) & 255, v & 255)
    return SStr([Atom('ip4', to_term(v))])


def ip6_text(n):
    """str(netaddr.IPAddress(n, 6)): RFC 5952 compression, and netaddr's embedded-IPv4 dotted form for IPv4-compatible
    (0xffff < n <= 0xffffffff) and IPv4-mapped (n >> 32 == 0xffff) addresses (netaddr.strategy.ipv6.int_to_str)"""
    import ipaddress
    if 0xffff < n <= 0xffffffff or (n >> 32) == 0xffff:
        v4 = '%d.%d.%d.%d' % ((n >> 24) & 255, (n >> 16) & 255, (n >> 8) & 255, n & 255)
        return ('::ffff:' if (n >> 32) == 0xffff else '::') + v4
    return str(ipaddress.IPv6Address(n))


def ip6(v):
    if isinstance(v, int):
        return ip6_text(v)
    return SStr([Atom('ip6', to_term(v))])


def hexs(sb):
    if isinstance(sb, (bytes, bytearray)):
        import binascii
        return binascii.b2a_hex(bytes(sb)).decode()
    return SStr([Atom('hex', sb)])


def concat(parts):
    return norm(SStr(parts))


ALPHABET = {
    'dec': set('0123456789'),
    'ip4': set('0123456789.'),
    'ip6': set('0123456789abcdef:.'),
    'hex': set('0123456789abcdef'),
    'mac': set('0123456789ABCDEF-'),
    'hexbyte': set('0123456789ABCDEF'),
    'hexint': set('0123456789abcdef'),
}


def contains_char(s, ch):
    """`ch in s` for a single character / short literal: decided structurally or Unsupported"""
    if isinstance(s, str):
        return ch in s
    lit_hit = any(isinstance(p, str) and ch in p for p in s.parts)
    if lit_hit:
        return True
    for p in s.parts:
        if isinstance(p, Atom):
            al = ALPHABET.get(p.kind)
            if al is None:
                raise Unsupported('membership test on opaque text')
            if any(c in al for c in ch):
                if p.kind == 'ip4' and ch == '.':
                    return True
                if p.kind == 'mac' and ch == '-':
                    return True
                raise Unsupported('membership of %r in %s atom' % (ch, p.kind))
    # no literal part contains ch, no atom can contain any of its characters: a multi-character ch could only
    # straddle two adjacent literal parts, which normalisation (SStr merges adjacent literals) rules out
    return False


def split(s, sep, maxsplit=-1):
    """s.split(sep): only when every occurrence of sep is decidable structurally"""
    if isinstance(s, str):
        return s.split(sep, maxsplit)
    a0 = s.single_atom()
    if a0 is not None and a0.kind == 'mac' and sep == '-' and maxsplit < 0:
        # 'AA-BB-CC-DD-EE-FF': six two-digit upper-case hex groups
        from .values import digits_hint
        octs = digits_hint(a0.t, 6)
        if octs is not None:
            return [SStr([Atom('hexbyte', octs[k])]) for k in range(6)]
        return [SStr([Atom('hexbyte', z3.simplify((a0.t / (256 ** (5 - k))) % 256))]) for k in range(6)]
    if len(sep) != 1:
        return split_multi(s, sep, maxsplit)
    for p in s.parts:
        if isinstance(p, Atom):
            al = ALPHABET.get(p.kind)
            if al is None or sep in al:
                raise Unsupported('split(%r) through a %s atom' % (sep, p.kind))
    out = [[]]
    n = 0
    for p in s.parts:
        if isinstance(p, str):
            i = 0
            while True:
                j = p.find(sep, i) if (maxsplit < 0 or n < maxsplit) else -1
                if j < 0:
                    out[-1].append(p[i:])
                    break
                out[-1].append(p[i:j])
                out.append([])
                n += 1
                i = j + 1
        else:
            out[-1].append(p)
    return [concat(x) for x in out]


def split_multi(s, sep, maxsplit):
    """multi-character separator: decidable when some character of sep cannot occur inside any atom (so every
    occurrence contains a literal character) and no occurrence can straddle a literal/atom boundary"""
    if maxsplit >= 0:
        raise Unsupported('split with maxsplit on multi-character separator')
    alph = []
    for p in s.parts:
        if isinstance(p, Atom):
            al = ALPHABET.get(p.kind)
            if al is None or (p.kind == 'hexint' and p.extra != ('', 'x')):
                raise Unsupported('split(%r) through a %s atom' % (sep, p.kind))
            alph.append(al)
    if all(all(c in al for c in sep) for al in alph) and alph:
        raise Unsupported('split(%r): the separator may occur inside an atom' % sep)
    parts = s.parts
    for i, p in enumerate(parts):
        if not isinstance(p, str):
            continue
        nxt = parts[i + 1] if i + 1 < len(parts) else None
        prv = parts[i - 1] if i > 0 else None
        for k in range(1, len(sep)):
            if isinstance(nxt, Atom) and p.endswith(sep[:k]) and all(c in ALPHABET[nxt.kind] for c in sep[k:]):
                raise Unsupported('split(%r): an occurrence may straddle a literal/atom boundary' % sep)
            if isinstance(prv, Atom) and p.startswith(sep[k:]) and all(c in ALPHABET[prv.kind] for c in sep[:k]):
                raise Unsupported('split(%r): an occurrence may straddle an atom/literal boundary' % sep)
    out = [[]]
    for p in parts:
        if isinstance(p, str):
            pieces = p.split(sep)
            out[-1].append(pieces[0])
            for q in pieces[1:]:
                out.append([q])
        else:
            out[-1].append(p)
    return [concat(x) for x in out]


def to_int(it, s, base=10):
    """int(s[, base]) on a structured string"""
    if isinstance(s, str):
        return None
    a = s.single_atom()
    if a is not None and a.kind == 'dec' and base == 10:
        return mk_num(a.t)
    if a is not None and a.kind == 'hexbyte' and base == 16:
        return mk_num(a.t)
    if a is not None and a.kind == 'hex' and base == 16:
        sb = a.t
        n = sb.known_len()
        if n is None:
            raise Unsupported('int(hex of symbolic-length bytes, 16)')
        if n == 0:
            return None
        return mk_num(sb.be_int(0, n))
    raise Unsupported('int() of structured string %r' % (s,))


def str_eq(a, b):
    """structural equality; returns True/False or raises Unsupported when it depends on atom values"""
    a, b = norm(a), norm(b)
    if isinstance(a, str) and isinstance(b, str):
        return a == b
    pa = a.parts if isinstance(a, SStr) else [a]
    pb = b.parts if isinstance(b, SStr) else [b]
    if len(pa) == len(pb) and all((isinstance(x, str) and x == y) or (isinstance(x, Atom) and x.same(y))
                                  for x, y in zip(pa, pb)):
        return True
    # same shape with injective atoms: equal iff the atoms' values are equal
    if len(pa) == len(pb) and all((isinstance(x, str) and isinstance(y, str) and x == y) or
                                  (isinstance(x, Atom) and isinstance(y, Atom) and x.kind == y.kind and
                                   x.kind in ('dec', 'ip4', 'ip6', 'mac') and x.extra == y.extra)
                                  for x, y in zip(pa, pb)):
        from .values import mk_bool
        terms = [x.t == y.t for x, y in zip(pa, pb) if isinstance(x, Atom)]
        return mk_bool(z3.And(terms))
    # a literal vs an atom-bearing string: decide by alphabet where possible
    lit, st = (a, b) if isinstance(a, str) else ((b, a) if isinstance(b, str) else (None, None))
    if lit is not None:
        for p in st.parts:
            if isinstance(p, str):
                if p not in lit:
                    return False
            else:
                al = ALPHABET.get(p.kind)
                if al is not None and not any(c in al for c in lit):
                    return False
    raise Unsupported('equality of structured strings %r == %r' % (a, b))
