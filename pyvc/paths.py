"""pyvc.paths — one symbolic path; exploration by re-execution with a decision prefix."""
import time
import z3
from .values import Infeasible, LoopCut, Unsupported, CUR, SBool, SNum, to_bool_term

BRANCH_TIMEOUT_MS = 20000


class Obligation(object):
    __slots__ = ('name', 'facts', 'goal', 'meta', 'path_id')

    def __init__(self, name, facts, goal, meta=None, path_id=None):
        self.name, self.facts, self.goal, self.meta, self.path_id = name, facts, goal, meta or {}, path_id


class Path(object):
    def __init__(self, decisions, worklist):
        self.decisions = list(decisions)
        self.k = 0
        self.worklist = worklist
        self.facts = []
        self.solver = z3.Solver()
        self.solver.set('timeout', BRANCH_TIMEOUT_MS)
        self.effects = []
        self.obligations = []
        self.notes = []          # free-form notes (e.g. opaque operations used)
        self.opaque_ops = 0
        self.n_checks = 0
        self.ghost = {}
        self._axioms_seen = set()

    # -- facts
    def assume(self, c):
        if isinstance(c, bool):
            if not c:
                raise Infeasible()
            return
        c = z3.simplify(c)
        if z3.is_true(c):
            return
        if z3.is_false(c):
            raise Infeasible()
        self.facts.append(c)
        self.solver.add(c)

    def axiom(self, c):
        key = c.get_id()
        if key in self._axioms_seen:
            return
        self._axioms_seen.add(key)
        self.facts.append(c)
        self.solver.add(c)

    def feasible(self, c):
        self.solver.push()
        self.solver.add(c)
        self.n_checks += 1
        r = self.solver.check()
        self.solver.pop()
        if r == z3.unknown:
            # be conservative: treat as feasible (keeps soundness of proofs; may add infeasible paths)
            return True
        return r == z3.sat

    def implied_locally(self, c):
        """True if c follows from the facts that speak only about the constants of c (a subset of the path condition:
        sound for 'implied', cheap, and independent of unrelated hard facts)"""
        def consts(e, acc):
            stack = [e]
            seen = set()
            while stack:
                x = stack.pop()
                if x.get_id() in seen:
                    continue
                seen.add(x.get_id())
                if z3.is_const(x) and x.decl().kind() == z3.Z3_OP_UNINTERPRETED:
                    acc.add(str(x))
                elif z3.is_app(x):
                    stack.extend(x.children())
            return acc
        want = consts(c, set())
        s = z3.Solver()
        s.set('timeout', 5000)
        for f in self.facts:
            if consts(f, set()) <= want:
                s.add(f)
        s.add(z3.Not(c))
        return s.check() == z3.unsat

    def check_feasible_now(self):
        self.n_checks += 1
        return self.solver.check() != z3.unsat

    def branch(self, c):
        """Concrete bool for condition c; forks when both outcomes are feasible."""
        if isinstance(c, bool):
            return c
        if isinstance(c, SBool):
            c = c.t
        elif isinstance(c, SNum):
            c = c.t != 0
        c = z3.simplify(c)
        if z3.is_true(c):
            return True
        if z3.is_false(c):
            return False
        if self.k < len(self.decisions):
            d = self.decisions[self.k]
            self.k += 1
            self.assume(c if d else z3.Not(c))
            return d
        t = self.feasible(c)
        f = self.feasible(z3.Not(c))
        if t and f:
            self.worklist.append(self.decisions[:self.k] + [False])
            self.decisions.append(True)
            self.k += 1
            self.assume(c)
            return True
        if t:
            self.decisions.append(True)
            self.k += 1
            self.assume(c)
            return True
        if f:
            self.decisions.append(False)
            self.k += 1
            self.assume(z3.Not(c))
            return False
        raise Infeasible()

    def choose(self, n, label=''):
        """Nondeterministic choice among n alternatives (0..n-1), each explored on its own path."""
        for i in range(n - 1):
            b = z3.Bool('choice!%s!%d!%d' % (label, self.k, i))
            if self.branch(b):
                return i
        return n - 1

    def concretize(self, t, limit=64, what=''):
        """Fork on every feasible value of integer term t (small domains only)."""
        t = z3.simplify(t)
        if z3.is_int_value(t):
            return t.as_long()
        seen = 0
        while True:
            self.n_checks += 1
            r = self.solver.check()
            if r != z3.sat:
                if r == z3.unknown:
                    raise Unsupported('concretize: solver unknown (%s)' % what)
                raise Infeasible()
            v = self.solver.model().eval(t, model_completion=True)
            if not z3.is_int_value(v):
                raise Unsupported('concretize: non-integer model value (%s)' % what)
            seen += 1
            if seen > limit:
                raise Unsupported('concretize: more than %d values (%s)' % (limit, what))
            if self.branch(t == v):
                return v.as_long()

    # -- obligations
    def prove(self, name, goal, **meta):
        if isinstance(goal, bool):
            goal = z3.BoolVal(goal)
        elif isinstance(goal, SBool):
            goal = goal.t
        self.obligations.append(Obligation(name, list(self.facts), goal, meta))

    def effect(self, *e):
        self.effects.append(tuple(e))


class Outcome(object):
    """Result of one explored path."""

    def __init__(self, kind, value=None, path=None, env=None, extra=None):
        self.kind = kind          # 'return' | 'raise' | 'cut' | 'unsupported'
        self.value = value
        self.path = path
        self.env = env
        self.extra = extra or {}

    def __repr__(self):
        return 'Outcome(%s, %r)' % (self.kind, self.value)


def explore(run_one, max_paths=20000, time_budget_s=None):
    """run_one(path) -> Outcome-kind tuple.  Explores all decision prefixes (DFS)."""
    work = [[]]
    results = []
    t0 = time.time()
    while work:
        if len(results) >= max_paths:
            raise Unsupported('path budget exceeded (%d paths)' % max_paths)
        if time_budget_s is not None and time.time() - t0 > time_budget_s:
            raise Unsupported('exploration time budget exceeded (%.0fs, %d paths)' % (time_budget_s, len(results)))
        dec = work.pop()
        p = Path(dec, work)
        CUR.path = p
        try:
            out = run_one(p)
        except LoopCut:
            out = Outcome('loopcut')
        except Infeasible:
            out = Outcome('cut')
        finally:
            CUR.path = None
        out.path = p
        p.solver = None          # the incremental solver is only needed while the path runs; facts are kept
        results.append(out)
    return results
