"""pyvc.models — semantics of operators, builtins and the modelled libraries (trusted base T3).

Every model here is differential-tested against the real library by selftest/axioms_validate.py.
"""
import ast
import math
import z3

from .values import (SNum, SBool, SBytes, Opaque, OpaqueSeq, Obj, SList, Unsupported, Infeasible, CUR, to_term,
                     to_bool_term, mk_num, mk_bool, bytes_eq_branch, fresh_name)
from .interp import (PyExc, raise_builtin, BEXC, BCls, Cls, Func, BoundMethod, Builtin, ExtModule, Module,
                     Super, _MISSING, is_subclass)
from . import strings as S
from .strings import SStr, Atom

STRUCT_W = {'B': 1, 'H': 2, 'I': 4, 'L': 4, 'Q': 8, 'b': 1, 'h': 2, 'i': 4, 'l': 4, 'q': 8}
SIGNED = set('bhilq')


def parse_fmt(fmt):
    if not fmt or fmt[0] not in '!>':
        if fmt and fmt[0] in '@=<':
            raise Unsupported('struct byte order %r' % fmt[0])
        # native order/alignment: only single-octet formats are order independent
        body = fmt
        if any(c not in 'Bbxs0123456789' for c in body):
            raise Unsupported('native-order struct format %r' % fmt)
    else:
        body = fmt[1:]
    out = []
    num = ''
    for ch in body:
        if ch.isdigit():
            num += ch
            continue
        n = int(num) if num else 1
        num = ''
        if ch == 's':
            out.append(('s', n))
        elif ch == 'x':
            out.append(('x', n))
        elif ch in STRUCT_W:
            out += [ch] * n
        elif ch in 'fd':
            out += [ch] * n
        else:
            raise Unsupported('struct format char %r' % ch)
    if num:
        raise_builtin('struct.error', 'repeat count given without format specifier')
    return out


def fmt_size(fs):
    t = 0
    for c in fs:
        if isinstance(c, tuple):
            t += c[1]
        elif c in 'f':
            t += 4
        elif c == 'd':
            t += 8
        else:
            t += STRUCT_W[c]
    return t


def isnum(v):
    return isinstance(v, (int, float, SNum, SBool)) and not isinstance(v, str)


def is_bytes(v):
    return isinstance(v, (bytes, bytearray, SBytes))


def is_str(v):
    return isinstance(v, (str, SStr))


class NetIP(object):
    """netaddr.IPAddress / IPNetwork model"""

    def __init__(self, version, value, prefixlen=None):
        self.version = version
        self.value = value          # int | SNum
        self.prefixlen = prefixlen  # for IPNetwork


class Models(object):
    def __init__(self, program):
        self.prog = program
        program.models = self
        self.ext = {}
        self.builtins = {}
        self.conf = Obj('CONF', tag='CONF')
        self.reactor = Obj('Reactor', tag='reactor')
        self._install_builtins()
        from . import libs
        libs.install(self)

    # ------------------------------------------------------------ lookup hooks used by Interp
    def builtin(self, name):
        return self.builtins.get(name, _MISSING)

    def ext_module(self, name):
        return self.ext.get(name)

    def truth(self, it, v):
        if isinstance(v, SStr):
            # a structured string with an atom is non-empty unless it's hex of possibly-empty bytes
            for p in v.parts:
                if isinstance(p, str) and p:
                    return True
                if isinstance(p, Atom) and p.kind in ('dec', 'ip4', 'ip6', 'mac'):
                    return True
            for p in v.parts:
                if isinstance(p, Atom) and p.kind == 'hex':
                    if it.branch(p.t.len > 0):
                        return True
                elif isinstance(p, Atom):
                    raise Unsupported('truth of opaque text')
            return False
        if isinstance(v, NetIP):
            return True
        return None

    def sym_key(self, it, k):
        from .values import SymKey
        if isinstance(k, (SStr, SNum)):
            return SymKey(k)
        raise Unsupported('symbolic dict key %r' % (k,))

    def iterate(self, it, v):
        if isinstance(v, SBytes):
            n = v.known_len()
            if n is None:
                n = it.p.concretize(v.len, limit=40, what='iteration over bytes')
            return [mk_num(v.at(i)) for i in range(n)]
        return None

    # ------------------------------------------------------------ operators
    def binop(self, it, op, a, b):
        if isinstance(a, Opaque) or isinstance(b, Opaque):
            if op == 'Add' and (is_bytes(a) or is_bytes(b)) and it.light:
                # bytes + X is bytes whenever it does not raise TypeError: keep the known part, the rest is arbitrary octets
                it.opaque('bytes + opaque')
                if it.branch(z3.Bool(fresh_name('opq_raises'))):
                    raise_builtin('TypeError', "can't concat")
                rest = SBytes.fresh('opqcat')
                return SBytes.of(a).concat(rest) if is_bytes(a) else rest.concat(SBytes.of(b))
            return it.opaque('binop %s on opaque' % op)
        # bytes
        if is_bytes(a) or is_bytes(b):
            if op == 'Add':
                if isinstance(a, (bytes, bytearray)) and isinstance(b, (bytes, bytearray)):
                    return bytes(a) + bytes(b)
                if not (is_bytes(a) and is_bytes(b)):
                    raise_builtin('TypeError', "can't concat %s to %s" % (type(b).__name__, type(a).__name__))
                return SBytes.of(a).concat(b)
            if op == 'Mult':
                x, n = (a, b) if is_bytes(a) else (b, a)
                if isinstance(x, (bytes, bytearray)) and isinstance(n, int):
                    return bytes(x) * n
                if isinstance(x, (bytes, bytearray)) and isinstance(n, SNum) and len(x) == 1:
                    # a run of one constant octet of symbolic length (negative counts give b'')
                    c = z3.IntVal(bytes(x)[0])
                    return SBytes(z3.If(n.t > 0, n.t, z3.IntVal(0)), lambda i, c=c: c)
                if isinstance(x, (bytes, bytearray)) and isinstance(n, SNum):
                    k = it.p.concretize(n.t, limit=40, what='bytes repeat count')
                    return bytes(x) * k
                raise Unsupported('bytes * symbolic')
            if op == 'Mod' and isinstance(a, (bytes, bytearray)):
                raise Unsupported('bytes %-formatting')
            raise_builtin('TypeError', 'unsupported operand type(s) for %s: bytes' % op)
        # strings
        if is_str(a) or is_str(b):
            if op == 'Add':
                if not (is_str(a) and is_str(b)):
                    raise_builtin('TypeError', 'can only concatenate str to str')
                return S.concat([a, b])
            if op == 'Mod' and is_str(a):
                return self.str_format(it, a, b)
            if op == 'Mult':
                s, n = (a, b) if is_str(a) else (b, a)
                if isinstance(s, str) and isinstance(n, int):
                    return s * n
                raise Unsupported('str * symbolic')
            raise_builtin('TypeError', 'unsupported operand type(s) for %s: str' % op)
        # lists / tuples
        if isinstance(a, (list, tuple)) or isinstance(b, (list, tuple)):
            if op == 'Add' and type(a) is type(b):
                return a + b
            if op == 'Mult':
                s, n = (a, b) if isinstance(a, (list, tuple)) else (b, a)
                if isinstance(n, int):
                    return s * n
                if isinstance(n, SNum):
                    k = it.p.concretize(n.t, limit=40, what='list repeat count')
                    return s * k
            raise_builtin('TypeError', 'unsupported operand type(s) for %s: list' % op)
        if isinstance(a, dict) or isinstance(b, dict) or a is None or b is None:
            raise_builtin('TypeError', 'unsupported operand type(s) for %s' % op)
        if isinstance(a, (set, frozenset)) and isinstance(b, (set, frozenset)):
            if op == 'BitOr':
                return a | b
            if op == 'BitAnd':
                return a & b
            if op == 'Sub':
                return a - b
        if not (isnum(a) and isnum(b)):
            raise Unsupported('binop %s on %s,%s' % (op, type(a).__name__, type(b).__name__))
        # concrete numbers
        if not isinstance(a, (SNum, SBool)) and not isinstance(b, (SNum, SBool)):
            try:
                if op == 'Add':
                    return a + b
                if op == 'Sub':
                    return a - b
                if op == 'Mult':
                    return a * b
                if op == 'Div':
                    return a / b
                if op == 'FloorDiv':
                    return a // b
                if op == 'Mod':
                    return a % b
                if op == 'Pow':
                    return a ** b
                if op == 'LShift':
                    return a << b
                if op == 'RShift':
                    return a >> b
                if op == 'BitAnd':
                    return a & b
                if op == 'BitOr':
                    return a | b
                if op == 'BitXor':
                    return a ^ b
            except ZeroDivisionError:
                raise_builtin('ZeroDivisionError')
            except TypeError as e:
                raise_builtin('TypeError', str(e))
            except ValueError as e:
                raise_builtin('ValueError', str(e))
            raise Unsupported('binop ' + op)
        return self.sym_arith(it, op, a, b)

    def _is_real(self, v):
        return isinstance(v, float) or (isinstance(v, SNum) and v.is_real)

    def sym_arith(self, it, op, a, b):
        ta, tb = to_term(a), to_term(b)
        real = self._is_real(a) or self._is_real(b)
        if real:
            if ta.sort().kind() != z3.Z3_REAL_SORT:
                ta = z3.ToReal(ta)
            if tb.sort().kind() != z3.Z3_REAL_SORT:
                tb = z3.ToReal(tb)
        if op == 'Add':
            return mk_num(ta + tb)
        if op == 'Sub':
            return mk_num(ta - tb)
        if op == 'Mult':
            return mk_num(ta * tb)
        if op == 'Div':
            if not it.branch(tb != 0):
                raise_builtin('ZeroDivisionError')
            if not real:
                ta, tb = z3.ToReal(ta), z3.ToReal(tb)
            return mk_num(ta / tb)
        if real:
            if op == 'FloorDiv' or op == 'Mod':
                raise Unsupported('floor division of reals')
            raise_builtin('TypeError', 'unsupported operand type(s) for %s: float' % op)
        if op in ('FloorDiv', 'Mod'):
            if isinstance(b, (SNum, SBool)):
                k = it.p.concretize(tb, limit=64, what='symbolic divisor')
                tb = z3.IntVal(k)
            else:
                k = int(b)
            if k == 0:
                raise_builtin('ZeroDivisionError')
            if k < 0:
                raise Unsupported('negative divisor')
            # z3 div/mod are Euclidean: equal to Python floor div / mod for a positive divisor
            return mk_num(ta / tb) if op == 'FloorDiv' else mk_num(ta % tb)
        if op == 'Pow':
            if isinstance(b, int) and b >= 0:
                r = z3.IntVal(1)
                for _ in range(b):
                    r = r * ta
                return mk_num(r)
            if isinstance(a, int) and a == 2:
                k = it.p.concretize(tb, limit=140, what='2**k exponent')
                if k < 0:
                    return 2.0 ** k
                return 2 ** k
            raise Unsupported('symbolic power')
        if op in ('LShift', 'RShift'):
            if isinstance(b, (SNum, SBool)):
                k = it.p.concretize(tb, limit=140, what='shift amount')
            else:
                k = int(b)
            if k < 0:
                raise_builtin('ValueError', 'negative shift count')
            if op == 'LShift':
                return mk_num(ta * (2 ** k))
            return mk_num(ta / z3.IntVal(2 ** k))       # floor for positive divisor (also for negative ta)
        if op in ('BitAnd', 'BitOr', 'BitXor'):
            return self.bitop(it, op, a, b, ta, tb)
        raise Unsupported('binop %s' % op)

    def bitop(self, it, op, a, b, ta, tb):
        # put the constant (if any) on the right
        if not isinstance(a, (SNum, SBool)):
            a, b, ta, tb = b, a, tb, ta
        if not it.p.implied_locally(ta >= 0) and not it.branch(ta >= 0):
            raise Unsupported('bit operation on a possibly negative symbolic integer')
        if not isinstance(b, (SNum, SBool)):
            m = int(b)
            if m < 0:
                raise Unsupported('bit operation with negative constant')
            if op == 'BitAnd':
                if m == 0:
                    return 0
                # contiguous low mask
                if (m & (m + 1)) == 0:
                    return mk_num(ta % (m + 1))
                # contiguous mask  (2^hi - 2^lo)
                lo = (m & -m).bit_length() - 1
                if ((m >> lo) & ((m >> lo) + 1)) == 0:
                    hi = m.bit_length()
                    return mk_num((ta % (2 ** hi)) - (ta % (2 ** lo)))
                e = z3.IntVal(0)
                for j in range(m.bit_length()):
                    if (m >> j) & 1:
                        e = e + ((ta / (2 ** j)) % 2) * (2 ** j)
                return mk_num(e)
            if op == 'BitOr':
                e = ta
                for j in range(m.bit_length()):
                    if (m >> j) & 1:
                        e = e + (1 - ((ta / (2 ** j)) % 2)) * (2 ** j)
                return mk_num(e)
            if op == 'BitXor':
                e = ta
                for j in range(m.bit_length()):
                    if (m >> j) & 1:
                        e = e + (1 - 2 * ((ta / (2 ** j)) % 2)) * (2 ** j)
                return mk_num(e)
        # both symbolic: OR/AND of operands; common idiom (hi << k) | lo with lo < 2^k
        if not it.branch(tb >= 0):
            raise Unsupported('bit operation on a possibly negative symbolic integer')
        W = 64
        if not it.branch(z3.And(ta < 2 ** W, tb < 2 ** W)):
            raise Unsupported('bit operation on integers >= 2^64')
        ba, bb = z3.Int2BV(ta, W), z3.Int2BV(tb, W)
        r = {'BitAnd': ba & bb, 'BitOr': ba | bb, 'BitXor': ba ^ bb}[op]
        return mk_num(z3.BV2Int(r, False))

    def unop(self, it, op, v):
        if isinstance(v, Opaque):
            return it.opaque('unary op on opaque')
        if op == 'USub':
            if isinstance(v, (SNum, SBool)):
                return mk_num(-to_term(v))
            if isnum(v):
                return -v
        if op == 'UAdd' and isnum(v):
            return v
        if op == 'Invert':
            if isinstance(v, (SNum, SBool)):
                return mk_num(-to_term(v) - 1)
            if isinstance(v, int):
                return ~v
        raise_builtin('TypeError', 'bad operand type for unary %s' % op)

    # ------------------------------------------------------------ comparison
    def compare(self, it, op, a, b):
        if op == 'Is':
            return self.identical(a, b)
        if op == 'IsNot':
            return not self.identical(a, b)
        if op == 'In':
            return self.contains(it, b, a)
        if op == 'NotIn':
            r = self.contains(it, b, a)
            return self.negate(r)
        if isinstance(a, Opaque) or isinstance(b, Opaque):
            return it.opaque('comparison with opaque', 'bool')
        if op in ('Eq', 'NotEq'):
            r = self.equal(it, a, b)
            return r if op == 'Eq' else self.negate(r)
        # ordering
        if isnum(a) and isnum(b):
            if not isinstance(a, (SNum, SBool)) and not isinstance(b, (SNum, SBool)):
                return {'Lt': a < b, 'LtE': a <= b, 'Gt': a > b, 'GtE': a >= b}[op]
            ta, tb = to_term(a), to_term(b)
            if self._is_real(a) != self._is_real(b):
                if ta.sort().kind() != z3.Z3_REAL_SORT:
                    ta = z3.ToReal(ta)
                if tb.sort().kind() != z3.Z3_REAL_SORT:
                    tb = z3.ToReal(tb)
            return mk_bool({'Lt': ta < tb, 'LtE': ta <= tb, 'Gt': ta > tb, 'GtE': ta >= tb}[op])
        if isinstance(a, str) and isinstance(b, str) or (isinstance(a, (list, tuple)) and type(a) is type(b)) \
                or (isinstance(a, bytes) and isinstance(b, bytes)):
            try:
                return {'Lt': a < b, 'LtE': a <= b, 'Gt': a > b, 'GtE': a >= b}[op]
            except TypeError:
                raise Unsupported('ordering of compound symbolic values')
        if (isnum(a) or is_str(a) or is_bytes(a) or a is None or isinstance(a, (list, tuple, dict))) and \
                (isnum(b) or is_str(b) or is_bytes(b) or b is None or isinstance(b, (list, tuple, dict))) and \
                not (is_str(a) and is_str(b)) and not (is_bytes(a) and is_bytes(b)):
            raise_builtin('TypeError', "'%s' not supported between instances" % op)
        raise Unsupported('ordering %s of %s,%s' % (op, type(a).__name__, type(b).__name__))

    def negate(self, r):
        if isinstance(r, bool):
            return not r
        if isinstance(r, SBool):
            return mk_bool(z3.Not(r.t))
        if isinstance(r, Opaque):
            return r
        raise Unsupported('negate')

    def identical(self, a, b):
        if isinstance(a, Opaque) or isinstance(b, Opaque):
            p = CUR.path
            if p is not None and getattr(self, '_light_identity', True):
                # unknown identity: either (over-approximation; only reachable in light mode, where Opaque exists)
                return SBool(z3.Bool(fresh_name('opq_is')))
        if a is None or b is None:
            if isinstance(a, Opaque) or isinstance(b, Opaque):
                raise Unsupported('`is None` on opaque value')
            return a is b
        if isinstance(a, bool) and isinstance(b, bool):
            return a == b
        if isinstance(a, (Obj, Cls, BCls, Func)) or isinstance(b, (Obj, Cls, BCls, Func)):
            return a is b
        if isinstance(a, (bool,)) != isinstance(b, (bool,)):
            if isinstance(a, (SBool,)) or isinstance(b, (SBool,)):
                return mk_bool(to_bool_term(a) == to_bool_term(b))
            return False
        if isinstance(a, int) and isinstance(b, int):
            return a == b      # small-int identity; only used as `x is 0`-style tests
        if isinstance(a, str) and isinstance(b, str):
            return a == b
        if type(a).__name__ in ('TypeRef',) and type(b).__name__ in ('TypeRef',):
            return a.name == b.name
        raise Unsupported('`is` on %s,%s' % (type(a).__name__, type(b).__name__))

    def equal(self, it, a, b):
        if a is None or b is None:
            return a is b
        if isinstance(a, (Obj, Cls, BCls)) or isinstance(b, (Obj, Cls, BCls)):
            return a is b
        if isinstance(a, bool) or isinstance(b, bool) or isinstance(a, SBool) or isinstance(b, SBool):
            if isnum(a) and isnum(b):
                if isinstance(a, (bool, SBool)) and isinstance(b, (bool, SBool)):
                    return mk_bool(to_bool_term(a) == to_bool_term(b))
                return mk_bool(to_term(a) == to_term(b))
            return False
        if isnum(a) and isnum(b):
            if not isinstance(a, SNum) and not isinstance(b, SNum):
                return a == b
            ta, tb = to_term(a), to_term(b)
            if ta.sort().kind() != tb.sort().kind():
                if ta.sort().kind() != z3.Z3_REAL_SORT:
                    ta = z3.ToReal(ta)
                else:
                    tb = z3.ToReal(tb)
            return mk_bool(ta == tb)
        if is_bytes(a) and is_bytes(b):
            if isinstance(a, (bytes, bytearray)) and isinstance(b, (bytes, bytearray)):
                return bytes(a) == bytes(b)
            return mk_bool(bytes_eq_branch(a, b))
        if is_str(a) and is_str(b):
            return S.str_eq(a, b)
        if isinstance(a, (list, tuple)) and isinstance(b, (list, tuple)):
            if type(a) is not type(b) or len(a) != len(b):
                return False
            acc = True
            terms = []
            for x, y in zip(a, b):
                r = self.equal(it, x, y)
                if r is False:
                    return False
                if r is not True:
                    terms.append(to_bool_term(r))
            if terms:
                return mk_bool(z3.And(terms))
            return acc
        if isinstance(a, dict) and isinstance(b, dict):
            if set(a.keys()) != set(b.keys()):
                return False
            terms = []
            for k in a:
                r = self.equal(it, a[k], b[k])
                if r is False:
                    return False
                if r is not True:
                    terms.append(to_bool_term(r))
            return mk_bool(z3.And(terms)) if terms else True
        if isinstance(a, NetIP) and isinstance(b, NetIP):
            return self.equal(it, (a.version, a.value, a.prefixlen), (b.version, b.value, b.prefixlen))
        # different kinds are unequal in Python
        kinds = lambda v: ('num' if isnum(v) else 'bytes' if is_bytes(v) else 'str' if is_str(v) else
                           'seq' if isinstance(v, (list, tuple)) else 'dict' if isinstance(v, dict) else
                           type(v).__name__)
        if kinds(a) != kinds(b):
            return False
        if isinstance(a, (set, frozenset)):
            return a == b
        raise Unsupported('equality of %s,%s' % (type(a).__name__, type(b).__name__))

    def contains(self, it, container, x):
        if isinstance(container, Opaque):
            return it.opaque('membership in opaque', 'bool')
        if isinstance(container, dict):
            container = list(container.keys())
        if isinstance(container, (list, tuple, set, frozenset, range)):
            if isinstance(x, Opaque):
                return it.opaque('membership of opaque', 'bool')
            terms = []
            for y in (sorted(container, key=repr) if isinstance(container, (set, frozenset)) else container):
                r = self.equal(it, x, y)
                if r is True:
                    return True
                if r is not False:
                    terms.append(to_bool_term(r))
            if not terms:
                return False
            return mk_bool(z3.Or(terms))
        if is_str(container):
            if isinstance(x, Opaque):
                return it.opaque('membership of opaque', 'bool')
            if isinstance(x, str):
                return S.contains_char(container, x)
            raise Unsupported('symbolic substring test')
        if isinstance(container, (bytes, bytearray)) and isinstance(x, (bytes, int)):
            return x in container
        r = self.obj_contains(it, container, x)
        if r is not _MISSING:
            return r
        raise Unsupported('membership in %s' % type(container).__name__)

    def obj_contains(self, it, container, x):
        return _MISSING

    # ------------------------------------------------------------ subscripts
    def getitem(self, it, base, idx):
        if isinstance(base, Opaque):
            v = it.opaque('subscript of opaque')
            return v
        if isinstance(idx, Opaque):
            return it.opaque('opaque subscript')
        if isinstance(base, dict):
            if isinstance(idx, tuple) and not all_concrete(idx):
                if it.light:
                    if it.branch(z3.Bool(fresh_name('opq_keyerror'))):
                        raise_builtin('KeyError', 'symbolic key')
                    return it.opaque('lookup with a symbolic tuple key')
                for k in base.keys():
                    if isinstance(k, tuple) and len(k) == len(idx) and it.truth(self.equal(it, idx, k)):
                        return base[k]
                raise_builtin('KeyError', idx)
            if isinstance(idx, (SNum, SBool, SStr, SBytes)) and it.light and len(base) > 6:
                # light mode: do not fork over a large table; unknown entry, or KeyError
                if it.branch(z3.Bool(fresh_name('opq_keyerror'))):
                    raise_builtin('KeyError', 'symbolic key')
                return it.opaque('lookup in a %d-entry table with a symbolic key' % len(base))
            if isinstance(idx, (SNum, SBool)):
                # fork over the keys
                for k in base.keys():
                    if isnum(k) and it.branch(to_term(idx) == to_term(k)):
                        return base[k]
                raise_builtin('KeyError', idx)
            if isinstance(idx, SStr) or isinstance(idx, SBytes):
                for k in base.keys():
                    r = self.equal(it, idx, k)
                    if it.truth(r):
                        return base[k]
                raise_builtin('KeyError', idx)
            try:
                if idx in base:
                    return base[idx]
            except TypeError:
                raise_builtin('TypeError', 'unhashable type')
            raise_builtin('KeyError', idx)
        if isinstance(base, (list, tuple, str, bytes, range)):
            if isinstance(idx, (SNum, SBool)):
                n = len(base)
                if not it.branch(z3.And(to_term(idx) >= -n, to_term(idx) < n)):
                    raise_builtin('IndexError', 'index out of range')
                k = it.p.concretize(to_term(idx), limit=300, what='symbolic index into concrete sequence')
                return base[k]
            if not isinstance(idx, int):
                raise_builtin('TypeError', 'indices must be integers')
            try:
                return base[idx]
            except IndexError:
                raise_builtin('IndexError', 'index out of range')
        if isinstance(base, SBytes):
            if not isnum(idx):
                raise_builtin('TypeError', 'byte indices must be integers')
            t = to_term(idx)
            if isinstance(idx, int) and idx < 0:
                t = base.len + idx
                if not it.branch(t >= 0):
                    raise_builtin('IndexError', 'index out of range')
            elif isinstance(idx, SNum):
                if it.branch(t < 0):
                    t = base.len + t
                    if not it.branch(t >= 0):
                        raise_builtin('IndexError', 'index out of range')
            if not it.branch(t < base.len):
                raise_builtin('IndexError', 'index out of range')
            return mk_num(base.at(z3.simplify(t)))
        if isinstance(base, SStr):
            # a character of a leading literal part (the atoms have unknown widths, so only those positions are decidable)
            if isinstance(idx, int) and idx >= 0 and base.parts and isinstance(base.parts[0], str) and idx < len(base.parts[0]):
                return base.parts[0][idx]
            if isinstance(idx, int) and idx < 0 and base.parts and isinstance(base.parts[-1], str) and -idx <= len(base.parts[-1]):
                return base.parts[-1][idx]
            raise Unsupported('index into structured string')
        if base is None or isnum(base):
            raise_builtin('TypeError', 'object is not subscriptable')
        r = self.obj_getitem(it, base, idx)
        if r is not _MISSING:
            return r
        raise Unsupported('subscript of %s' % type(base).__name__)

    def obj_getitem(self, it, base, idx):
        return _MISSING

    def getslice(self, it, base, lo, hi, step):
        if isinstance(base, OpaqueSeq) and step is None and hi is None and isinstance(lo, int) and lo >= 0:
            n = base.len
            return OpaqueSeq(z3.If(n - lo > 0, n - lo, z3.IntVal(0)), base.why, base.kind)
        if isinstance(base, Opaque) or any(isinstance(x, Opaque) for x in (lo, hi, step)):
            return it.opaque('slice of opaque')
        if step is not None and step != 1:
            if isinstance(base, (list, tuple, str, bytes)) and all(
                    x is None or isinstance(x, int) for x in (lo, hi, step)):
                return base[lo:hi:step]
            raise Unsupported('extended slice')
        for x in (lo, hi):
            if x is not None and not isnum(x):
                raise_builtin('TypeError', 'slice indices must be integers or None')
            if isinstance(x, float) or (isinstance(x, SNum) and x.is_real):
                raise_builtin('TypeError', 'slice indices must be integers or None')
        if isinstance(base, (bytes, bytearray, list, tuple, str)):
            if all(x is None or isinstance(x, int) for x in (lo, hi)):
                return base[lo:hi]
            if isinstance(base, (bytes, bytearray)):
                return SBytes.const(base).slice(lo, hi)
            # concrete sequence, symbolic bounds: concretise (small)
            n = len(base)
            lo_c = lo if (lo is None or isinstance(lo, int)) else it.p.concretize(
                z3.If(to_term(lo) > n, n, z3.If(to_term(lo) < -n, -n, to_term(lo))), limit=300, what='slice lo')
            hi_c = hi if (hi is None or isinstance(hi, int)) else it.p.concretize(
                z3.If(to_term(hi) > n, n, z3.If(to_term(hi) < -n, -n, to_term(hi))), limit=300, what='slice hi')
            return base[lo_c:hi_c]
        if isinstance(base, SBytes):
            return base.slice(lo, hi)
        if isinstance(base, SStr):
            return self.sstr_slice(it, base, lo, hi)
        if base is None or isnum(base):
            raise_builtin('TypeError', 'object is not subscriptable')
        raise Unsupported('slice of %s' % type(base).__name__)

    def sstr_slice(self, it, s, lo, hi):
        # supported: stripping literal prefix/suffix characters
        parts = list(s.parts)
        if (lo is None or lo == 0) and isinstance(hi, int) and hi < 0 and isinstance(parts[-1], str) and \
                len(parts[-1]) >= -hi:
            parts[-1] = parts[-1][:hi]
            return S.concat(parts)
        if hi is None and isinstance(lo, int) and lo >= 0 and isinstance(parts[0], str) and len(parts[0]) >= lo:
            parts[0] = parts[0][lo:]
            return S.concat(parts)
        if (lo is None or lo == 0) and hi is None:
            return s
        raise Unsupported('slice of structured string')

    def setitem(self, it, base, idx, v):
        if isinstance(base, dict):
            base[it.hashable(idx)] = v
            return
        if isinstance(base, list):
            if isinstance(idx, SNum):
                idx = it.p.concretize(idx.t, limit=300, what='list store index')
            try:
                base[idx] = v
            except IndexError:
                raise_builtin('IndexError', 'list assignment index out of range')
            except TypeError:
                raise_builtin('TypeError', 'list indices must be integers')
            return
        if isinstance(base, Opaque):
            it.opaque('store into opaque')
            return
        if isinstance(base, (tuple, str, bytes, SBytes)):
            raise_builtin('TypeError', 'object does not support item assignment')
        if self.obj_setitem(it, base, idx, v):
            return
        raise Unsupported('item store into %s' % type(base).__name__)

    def obj_setitem(self, it, base, idx, v):
        return False

    def delitem(self, it, base, idx):
        if isinstance(base, dict):
            k = it.hashable(idx)
            if k not in base:
                raise_builtin('KeyError', k)
            del base[k]
            return
        if isinstance(base, list) and isinstance(idx, int):
            try:
                del base[idx]
            except IndexError:
                raise_builtin('IndexError')
            return
        if isinstance(base, Opaque):
            it.opaque('del on opaque')
            return
        if self.obj_delitem(it, base, idx):
            return
        raise Unsupported('del item of %s' % type(base).__name__)

    def obj_delitem(self, it, base, idx):
        return False

    def unpack_seq(self, it, v, n):
        if isinstance(v, (list, tuple)):
            if len(v) != n:
                raise_builtin('ValueError', 'wrong number of values to unpack')
            return list(v)
        if isinstance(v, Opaque):
            return [it.opaque('unpack of opaque') for _ in range(n)]
        if isinstance(v, (str, bytes)):
            if len(v) != n:
                raise_builtin('ValueError', 'wrong number of values to unpack')
            return list(v)
        if isinstance(v, SBytes):
            if not it.branch(v.len == n):
                raise_builtin('ValueError', 'wrong number of values to unpack')
            return [mk_num(v.at(i)) for i in range(n)]
        if isinstance(v, dict):
            if len(v) != n:
                raise_builtin('ValueError', 'wrong number of values to unpack')
            return list(v.keys())
        raise_builtin('TypeError', 'cannot unpack non-iterable %s' % type(v).__name__)

    # ------------------------------------------------------------ strings
    def to_str(self, it, v):
        if isinstance(v, str):
            return v
        if isinstance(v, SStr):
            return v
        if isinstance(v, bool) or v is None:
            return str(v)
        if isinstance(v, int):
            return str(v)
        if isinstance(v, float):
            return str(v)
        if isinstance(v, SNum):
            return S.dec(v)
        if isinstance(v, SBool):
            if it.branch(v.t):
                return 'True'
            return 'False'
        if isinstance(v, (bytes, bytearray)):
            return str(bytes(v))
        if isinstance(v, NetIP):
            return self.ip_text(it, v)
        if isinstance(v, Opaque):
            return it.opaque('str of opaque', 'str')
        if isinstance(v, (list, tuple, dict)):
            try:
                if all_concrete(v):
                    return str(v)
            except Exception:
                pass
            return self.repr_compound(it, v)
        if isinstance(v, Obj):
            c = v.cls
            if isinstance(c, Cls):
                f = c.lookup('__str__')
                if f is not _MISSING and isinstance(f, Func):
                    return it.call_func(f, [v], {})
            if isinstance(c, BCls) or (isinstance(c, Cls) and is_subclass(c, BEXC['BaseException'])):
                a = v.f.get('args', ())
                if len(a) == 0:
                    return ''
                if len(a) == 1:
                    return self.to_str(it, a[0])
                return it.opaque('str of exception with several args', 'str') if it.light else self.repr_compound(it, a)
        if isinstance(v, SBytes):
            return SStr([Atom('reprbytes', v)])        # str(bytes) is its repr
        raise Unsupported('str(%s)' % type(v).__name__)

    def to_repr(self, it, v):
        if isinstance(v, str):
            return repr(v)
        if isinstance(v, (bytes, bytearray)):
            return repr(bytes(v))
        if isinstance(v, SStr):
            # repr of a string without quotes/backslashes in its atoms
            return S.concat(["'", v, "'"])
        if isinstance(v, SBytes):
            return SStr([Atom('reprbytes', v)])
        return self.to_str(it, v)

    def repr_compound(self, it, v):
        if isinstance(v, (list, tuple)):
            o, c = ('[', ']') if isinstance(v, list) else ('(', ')')
            parts = [o]
            for i, x in enumerate(v):
                if i:
                    parts.append(', ')
                parts.append(self.to_repr(it, x))
            if isinstance(v, tuple) and len(v) == 1:
                parts.append(',')
            parts.append(c)
            return S.concat(parts)
        if isinstance(v, dict):
            parts = ['{']
            for i, (k, x) in enumerate(v.items()):
                if i:
                    parts.append(', ')
                parts += [self.to_repr(it, k), ': ', self.to_repr(it, x)]
            parts.append('}')
            return S.concat(parts)
        raise Unsupported('repr of %s' % type(v).__name__)

    def str_concat(self, it, parts):
        return S.concat(parts)

    def str_format(self, it, fmt, arg):
        if isinstance(fmt, SStr):
            raise Unsupported('%-format with structured format string')
        if isinstance(arg, Opaque):
            return it.opaque('format with opaque', 'str')
        if isinstance(arg, dict) and '%(' in fmt:
            return self._fmt_named(it, fmt, arg)
        args = list(arg) if isinstance(arg, tuple) else [arg]
        if all_concrete(args) and not any(isinstance(a, (Obj, NetIP)) for a in args):
            try:
                return fmt % tuple(args)
            except TypeError as e:
                raise_builtin('TypeError', str(e))
            except ValueError as e:
                raise_builtin('ValueError', str(e))
        out = []
        i = 0
        ai = 0
        while i < len(fmt):
            ch = fmt[i]
            if ch != '%':
                out.append(ch)
                i += 1
                continue
            i += 1
            if i >= len(fmt):
                raise_builtin('ValueError', 'incomplete format')
            spec = ''
            while i < len(fmt) and fmt[i] in '0123456789.-+ #':
                spec += fmt[i]
                i += 1
            conv = fmt[i]
            i += 1
            if conv == '%':
                out.append('%')
                continue
            if ai >= len(args):
                raise_builtin('TypeError', 'not enough arguments for format string')
            a = args[ai]
            ai += 1
            if conv == 's' and not spec:
                out.append(self.to_str(it, a))
            elif conv == 'r' and not spec:
                out.append(self.to_repr(it, a))
            elif conv in 'di' and not spec:
                if isinstance(a, (SNum, SBool)):
                    if isinstance(a, SNum) and a.is_real:
                        out.append(S.dec(mk_num(z3.ToInt(a.t))) if it.branch(a.t >= 0) else self._neg_real(it))
                    else:
                        out.append(S.dec(a if isinstance(a, SNum) else mk_num(to_term(a))))
                elif isinstance(a, (int, float)):
                    out.append('%d' % a)
                else:
                    raise_builtin('TypeError', '%d format: a number is required')
            elif conv in 'xX' and isinstance(a, SNum):
                out.append(SStr([Atom('hexint', a.t, (spec, conv))]))
            elif isinstance(a, (int, float, str)) and not isinstance(a, bool):
                try:
                    out.append(('%' + spec + conv) % a)
                except (TypeError, ValueError) as e:
                    raise_builtin(type(e).__name__, str(e))
            else:
                raise Unsupported('format spec %%%s%s with symbolic argument' % (spec, conv))
        if ai != len(args):
            raise_builtin('TypeError', 'not all arguments converted during string formatting')
        return S.concat(out)

    def _neg_real(self, it):
        raise Unsupported('%d of negative symbolic real')

    def _fmt_named(self, it, fmt, d):
        out = []
        i = 0
        while i < len(fmt):
            if fmt[i] == '%' and i + 1 < len(fmt) and fmt[i + 1] == '(':
                j = fmt.index(')', i)
                key = fmt[i + 2:j]
                conv = fmt[j + 1]
                if key not in d:
                    raise_builtin('KeyError', key)
                if conv == 's':
                    out.append(self.to_str(it, d[key]))
                elif conv == 'r':
                    out.append(self.to_repr(it, d[key]))
                else:
                    raise Unsupported('named format %s' % conv)
                i = j + 2
            elif fmt[i] == '%' and i + 1 < len(fmt) and fmt[i + 1] == '%':
                out.append('%')
                i += 2
            else:
                out.append(fmt[i])
                i += 1
        return S.concat(out)

    def ip_text(self, it, ip):
        if ip.version == 4:
            t = S.ip4(ip.value)
        else:
            t = S.ip6(ip.value)
        if ip.prefixlen is not None:
            return S.concat([t, '/', self.to_str(it, ip.prefixlen)])
        return t

    # ------------------------------------------------------------ isinstance
    def isinstance_(self, it, v, type_node, env):
        t = it.ev(type_node, env)
        ts = t if isinstance(t, tuple) else (t,)
        for x in ts:
            r = self._isinst1(it, v, x)
            if r:
                return True
        return False

    def _isinst1(self, it, v, x):
        if isinstance(x, TypeRef):
            n = x.name
            if isinstance(v, Opaque):
                if v.kind == n:
                    return True
                return it.branch(z3.Bool(fresh_name('opq_isinst')))
            if n == 'int':
                return (isinstance(v, int)) or isinstance(v, SBool) or (isinstance(v, SNum) and not v.is_real)
            if n == 'bool':
                return isinstance(v, (bool, SBool))
            if n == 'float':
                return isinstance(v, float) or (isinstance(v, SNum) and v.is_real)
            if n == 'str':
                return is_str(v)
            if n == 'bytes':
                return isinstance(v, (bytes, SBytes))
            if n == 'bytearray':
                return isinstance(v, bytearray)
            if n == 'list':
                return isinstance(v, (list, SList))
            if n == 'tuple':
                return isinstance(v, tuple)
            if n == 'dict':
                return isinstance(v, dict)
            if n == 'set':
                return isinstance(v, set)
            if n == 'object':
                return True
            if n == 'type':
                return isinstance(v, (Cls, BCls, TypeRef))
            raise Unsupported('isinstance(_, %s)' % n)
        if isinstance(x, (Cls, BCls)):
            if isinstance(v, Obj) and isinstance(v.cls, (Cls, BCls)):
                return is_subclass(v.cls, x)
            if isinstance(v, Opaque):
                return it.branch(z3.Bool(fresh_name('opq_isinst')))
            return False
        if isinstance(x, Opaque):
            return it.branch(z3.Bool(fresh_name('opq_isinst')))
        raise Unsupported('isinstance against %s' % type(x).__name__)

    # ------------------------------------------------------------ object hooks (overridden by libs)
    def obj_attr(self, it, obj, attr):
        h = self.obj_attr_handlers.get(obj.clsname)
        if h is not None:
            return h(it, obj, attr)
        return _MISSING

    def obj_setattr(self, it, obj, attr, v):
        return False

    def value_setattr(self, it, base, attr, v):
        return False

    def instantiate(self, it, cls, args, kw):
        return _MISSING

    def call_value(self, it, fv, args, kw):
        if isinstance(fv, TypeRef):
            fn = getattr(fv, 'fn', None)
            if fn is not None:
                return fn(it, args, kw)
            if fv.name == 'object':
                return Obj(BEXC['object'])
        return _MISSING

    def apply_decorator(self, it, dv, f, name):
        # decorators on functions: treated as transparent for the function body; the decorator list is
        # what C16 inspects.  A decorator defined in /repo is applied for real.
        if isinstance(dv, (Func, BoundMethod)):
            return it.call(dv, [f], {})
        return f

    def with_enter(self, it, cm):
        h = getattr(cm, 'with_enter', None)
        if h:
            return h(it)
        if isinstance(cm, Opaque):
            return it.opaque('with on opaque')
        raise Unsupported('with on %s' % type(cm).__name__)

    def with_exit(self, it, cm):
        h = getattr(cm, 'with_exit', None)
        if h:
            return h(it)

    # ------------------------------------------------------------ attribute access on plain values
    def value_attr(self, it, base, attr):
        from . import methods
        return methods.value_attr(self, it, base, attr)

    obj_attr_handlers = {}

    # ------------------------------------------------------------ builtins
    def _install_builtins(self):
        from . import methods
        methods.install_builtins(self)


class TypeRef(object):
    """builtin type object (int, str, ...) — callable through the builtins table"""

    def __init__(self, name):
        self.name = name

    def __repr__(self):
        return '<type %s>' % self.name


def all_concrete(v):
    if isinstance(v, (SNum, SBool, SBytes, Opaque, SStr, SList)):
        return False
    if isinstance(v, (list, tuple, set, frozenset)):
        return all(all_concrete(x) for x in v)
    if isinstance(v, dict):
        return all(all_concrete(k) and all_concrete(x) for k, x in v.items())
    return True
