"""native/stubs.py — minimal stand-ins for twisted.internet / radix / simplejson so yabgp.core imports natively."""
import sys, types, json, heapq, itertools

class AlreadyCalled(Exception): pass
class AlreadyCancelled(Exception): pass

class DelayedCall:
    _ids = itertools.count()
    def __init__(self, reactor, t, f, a, kw):
        self.reactor, self.time, self.f, self.a, self.kw = reactor, t, f, a, kw
        self.called = False; self.cancelled = False; self.id = next(self._ids)
    def active(self): return not (self.called or self.cancelled)
    def cancel(self):
        if self.cancelled: raise AlreadyCancelled()
        if self.called: raise AlreadyCalled()
        self.cancelled = True
    def reset(self, s):
        if self.cancelled: raise AlreadyCancelled()
        if self.called: raise AlreadyCalled()
        self.time = self.reactor.now + s
    def getTime(self): return self.time

class Connector:
    def __init__(self, reactor, host, port, factory, timeout, bindAddress):
        self.state = 'connecting'; self.factory = factory; self.host=host; self.port=port
        self.timeout = timeout; self.started = reactor.now; self.transport = None

class Addr:
    def __init__(self, host, port): self.host, self.port = host, port

class Transport:
    def __init__(self, reactor, proto):
        self.connected = 1; self.disconnecting = False; self.written = []; self.reactor = reactor; self.proto = proto
    def setTcpNoDelay(self, v): pass
    def getHost(self): return Addr('10.0.0.1', 40000)
    def write(self, data): self.written.append((self.reactor.now, bytes(data)))
    def loseConnection(self):
        self.lose_calls = getattr(self, 'lose_calls', 0) + 1
        if self.connected and not self.disconnecting:
            self.disconnecting = True

class Reason:
    def __init__(self, m='closed'): self.m = m
    def getErrorMessage(self): return self.m

class Reactor:
    def __init__(self): self.reset_()
    def reset_(self):
        self.now = 0.0; self.calls = []; self.connectors = []; self.threadcalls = []
    def callLater(self, s, f, *a, **kw):
        dc = DelayedCall(self, self.now + s, f, a, kw); self.calls.append(dc); return dc
    def callFromThread(self, f, *a, **kw): f(*a, **kw)
    def connectTCP(self, host, port, factory, timeout=30, bindAddress=None):
        c = Connector(self, host, port, factory, timeout, bindAddress); self.connectors.append(c); return c
    # driving
    def pending(self): return sorted([c for c in self.calls if c.active()], key=lambda c: (c.time, c.id))
    def fire_next(self):
        p = self.pending()
        if not p: return False
        dc = p[0]; self.now = max(self.now, dc.time); dc.called = True; dc.f(*dc.a, **dc.kw); return True
    def advance(self, dt):
        end = self.now + dt
        while True:
            p = [c for c in self.pending() if c.time <= end]
            if not p: break
            dc = p[0]; self.now = max(self.now, dc.time); dc.called = True; dc.f(*dc.a, **dc.kw)
        self.now = end
    def connect_ok(self, c):
        assert c.state == 'connecting'
        p = c.factory.buildProtocol(Addr(c.host, c.port)); c.state = 'connected'
        t = Transport(self, p); p.transport = t; c.transport = t; c.proto = p
        p.connectionMade(); return p
    def connect_fail(self, c, msg='refused'):
        assert c.state == 'connecting'; c.state = 'disconnected'
        c.factory.clientConnectionFailed(c, Reason(msg))
    def conn_lost(self, c, msg='lost'):
        assert c.state == 'connected'; c.state = 'disconnected'; c.transport.connected = 0
        c.proto.connectionLost(Reason(msg)); c.factory.clientConnectionLost(c, Reason(msg))

reactor = Reactor()

def install():
    tw = types.ModuleType('twisted'); ti = types.ModuleType('twisted.internet')
    tp = types.ModuleType('twisted.internet.protocol'); te = types.ModuleType('twisted.internet.error')
    class Protocol:
        transport = None; factory = None
        def makeConnection(self, t): self.transport = t; self.connectionMade()
    class Factory:
        protocol = None
        def buildProtocol(self, addr):
            p = self.protocol(); p.factory = self; return p
    tp.Protocol, tp.Factory = Protocol, Factory
    te.AlreadyCalled, te.AlreadyCancelled = AlreadyCalled, AlreadyCancelled
    ti.protocol, ti.error, ti.reactor = tp, te, reactor
    tw.internet = ti
    sys.modules.update({'twisted': tw, 'twisted.internet': ti, 'twisted.internet.protocol': tp,
                        'twisted.internet.error': te, 'twisted.internet.reactor': reactor})
    rx = types.ModuleType('radix')
    class Radix:
        def __init__(self): self.d = {}
        def add(self, p): self.d[p] = True
        def delete(self, p): self.d.pop(p)
        def search_exact(self, p): return self.d.get(p)
        def search_best(self, p): return None
        def __contains__(self, p): return False
    rx.Radix = Radix; sys.modules['radix'] = rx
    sys.modules.setdefault('simplejson', json)
