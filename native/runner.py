"""native/runner.py — run under /venv/bin/python.  Executes REAL yabgp code on a concrete request and
prints the observed outcome as JSON.  This is the replay half of the verifier: counter-models and path
witnesses produced symbolically are re-run here on the real objects.

Twisted / radix / simplejson are installed nowhere: sys.modules stand-ins (native/stubs.py) play the
environment of assumption T1.
"""
import sys, os, json, struct, signal, traceback, binascii, resource
HERE = os.path.dirname(os.path.abspath(__file__))
sys.path.insert(0, HERE)
REPO = os.environ.get('VERIF_REPO', '/repo')
sys.path.insert(0, REPO)
import stubs
stubs.install()
import logging
logging.disable(logging.CRITICAL)
from oslo_config import cfg
import yabgp.config
CONF = cfg.CONF
R = stubs.reactor

REPORTS = ('init', 'on_update_error', 'update_received', 'keepalive_received', 'open_received', 'send_open',
           'route_refresh_received', 'notification_received', 'on_connection_lost', 'on_connection_failed',
           'on_established')


def jval(v):
    if isinstance(v, (bytes, bytearray)):
        return {'hex': binascii.b2a_hex(bytes(v)).decode()}
    if isinstance(v, dict):
        return {'dict': [[jval(k), jval(x)] for k, x in v.items()]}
    if isinstance(v, (list, tuple)):
        return {'list' if isinstance(v, list) else 'tuple': [jval(x) for x in v]}
    if isinstance(v, (int, float, str, bool)) or v is None:
        return v
    return {'repr': repr(v)[:200]}


def unj(v):
    if isinstance(v, dict):
        if 'hex' in v:
            return binascii.a2b_hex(v['hex'])
        if 'dict' in v:
            return {(tuple(unj(k)) if isinstance(unj(k), list) else unj(k)): unj(x) for k, x in v['dict']}
        if 'list' in v:
            return [unj(x) for x in v['list']]
        if 'tuple' in v:
            return tuple(unj(x) for x in v['tuple'])
        if 'none' in v:
            return None
    return v


class Handler(object):
    def __init__(self):
        from queue import Queue
        self.inter_mq = Queue()
        self.log = []

    def __getattr__(self, n):
        if n in REPORTS:
            return lambda *a, **k: self.log.append(n)
        raise AttributeError(n)


def boot(cfgv):
    CONF.reset()
    args = ['--bgp-local_as=%d' % cfgv.get('local_as', 65001), '--bgp-remote_as=%d' % cfgv.get('remote_as', 65002),
            '--bgp-remote_addr=10.0.0.2', '--bgp-local_addr=10.0.0.1',
            '--time-hold_time=%d' % cfgv.get('cfgH', 180), '--time-connect_retry_time=%d' % cfgv.get('cr_t', 30),
            '--time-idle_hold_time=%d' % cfgv.get('ih_t', 30), '--time-keep_alive_time=%d' % cfgv.get('cfgKA', 60),
            '--time-delay_open_time=%d' % cfgv.get('do_t', 10)]
    CONF(args=args, project='yabgp')
    if 'rib' in cfgv:
        CONF.set_override('rib', bool(cfgv['rib']), group='bgp')
    yabgp.config.get_bgp_config()
    CONF.bgp.running_config['capability']['local']['afi_safi'] = [(1, 1)]
    if 'caps' in cfgv:
        CONF.bgp.running_config['capability'] = unj(cfgv['caps'])
    R.reset_()
    R.now = float(cfgv.get('now', 1000.0))
    from yabgp.core.factory import BGPPeering
    h = Handler()
    p = BGPPeering(myasn=cfgv.get('local_as', 65001), myaddr='10.0.0.1', peerasn=cfgv.get('remote_as', 65002),
                   peeraddr='10.0.0.2', afisafi=[(1, 1)], md5=None, handler=h)
    CONF.bgp.running_config['factory'] = p
    return p, h


TIMERS = {'cr': 'connect_retry_timer', 'hold': 'hold_timer', 'ka': 'keep_alive_timer', 'dopen': 'delay_open_timer',
          'ihold': 'idle_hold_timer'}


def set_timer(t, status, active, deadline, fired=False):
    """materialise an abstract timer (status, active, deadline) on the real BGPTimer"""
    t.status = bool(status)
    if active:
        t.delayed_call = R.callLater(max(0.0, float(deadline) - R.now), t.callable)
        t.delayed_call.time = float(deadline)
    elif status:
        # inactive with status True: the DelayedCall fired
        dc = R.callLater(0, t.callable)
        dc.called = True
        t.delayed_call = dc
    else:
        t.delayed_call = None


def timer_view(t):
    dc = t.delayed_call
    active = bool(dc is not None and dc.active())
    return {'status': bool(t.status), 'active': active, 'deadline': (dc.time if active else None)}


def build_session(st):
    p, h = boot(st.get('conf', {}))
    f = p.fsm
    object.__setattr__(f, 'state', st['st'])
    f.hold_time = st.get('H', CONF.time.hold_time)
    f.keep_alive_time = st.get('KA', CONF.time.keep_alive_time)
    f.allow_automatic_start = bool(st.get('allow_auto', True))
    f.connect_retry_counter = st.get('crc', 0)
    p.status = bool(st.get('peering_status', True))
    p.bgp_id = st.get('bgp_id', 0x0a000001)
    p.peer_id = st.get('peer_id')
    P = None
    if st.get('with_protocol', True):
        from yabgp.core.protocol import BGP
        P = BGP()
        P.factory = p
        P.bgp_peering = p
        P.fsm = f
        f.protocol = P
        p.estab_protocol = P
        tr = stubs.Transport(R, P)
        tr.connected = int(st.get('tr_connected', 1))
        tr.disconnecting = bool(st.get('tr_disconnecting', False))
        P.transport = tr
        P.disconnected = bool(st.get('P_disconnected', False))
        P._receive_buffer = unj(st.get('rbuf', {'hex': ''}))
        P.fourbytesas = bool(st.get('fourbytesas', False))
        for k, v in st.get('sent', {}).items():
            P.msg_sent_stat[k] = v
        for k, v in st.get('recv', {}).items():
            P.msg_recv_stat[k] = v
    for _ in range(int(st.get('n_pending', 0))):
        R.connectTCP('10.0.0.2', 179, p, 30, None)
    for sh, name in TIMERS.items():
        tv = st.get('timers', {}).get(sh, {})
        set_timer(getattr(f, name), tv.get('status', False), tv.get('active', False), tv.get('deadline', R.now + 10))
    return p, h, P


def view(p, h, P):
    f = p.fsm
    v = {'st': f.state, 'H': f.hold_time, 'KA': f.keep_alive_time, 'allow_auto': f.allow_automatic_start,
         'crc': f.connect_retry_counter, 'protocol_is_P': f.protocol is P, 'protocol_none': f.protocol is None,
         'timers': {sh: timer_view(getattr(f, n)) for sh, n in TIMERS.items()},
         'reports': list(h.log), 'connects': len(R.connectors), 'now': R.now, 'writes': [], 'lose_calls': 0,
         'n_pending': len([c for c in R.connectors if c.state == 'connecting'])}
    if P is not None:
        tr = P.transport
        v.update({'tr_connected': tr.connected, 'tr_disconnecting': tr.disconnecting, 'P_disconnected': P.disconnected,
                  'writes': [binascii.b2a_hex(d).decode() for t, d in tr.written], 'sent': dict(P.msg_sent_stat),
                  'recv': dict(P.msg_recv_stat), 'rbuf': binascii.b2a_hex(P._receive_buffer).decode(),
                  'fourbytesas': P.fourbytesas, 'lose_calls': getattr(tr, 'lose_calls', 0)})
    return v


class Timeout(Exception):
    pass


def with_budget(fn, cpu_s):
    def alarm(*a):
        raise Timeout()
    signal.signal(signal.SIGVTALRM, alarm)
    signal.setitimer(signal.ITIMER_VIRTUAL, cpu_s)
    try:
        return fn()
    finally:
        signal.setitimer(signal.ITIMER_VIRTUAL, 0)


def resolve(qual):
    import importlib
    parts = qual.split('.')
    for i in range(len(parts), 0, -1):
        try:
            m = importlib.import_module('.'.join(parts[:i]))
        except ImportError:
            continue
        obj = m
        for r in parts[i:]:
            obj = getattr(obj, r)
        return obj
    raise ImportError(qual)


def run_logfs(req, out):
    """C20: DefaultHandler on a real temporary directory.  ops: ['write', t, type, msg] | ['cb', name, args...] |
    ['rotate'] | ['restart'] | ['truncate', nbytes] | ['get_last'] ; a crash is 'truncate' (torn tail) + 'restart'."""
    import tempfile
    import shutil
    import os
    from yabgp.handler import default_handler as DHM
    tmp = tempfile.mkdtemp(prefix='c20fs')
    peer = req.get('peer', '10.0.0.2')
    key = peer.lower()
    msgdir = os.path.join(tmp, key, 'msg') + '/'
    os.makedirs(msgdir)
    log = []
    try:
        CONF.reset()
        CONF(args=['--bgp-local_as=65001', '--bgp-remote_as=65002', '--bgp-remote_addr=%s' % peer, '--bgp-local_addr=10.0.0.1'],
             project='yabgp')
        CONF.set_override('write_dir', tmp + '/', group='message')
        CONF.set_override('write_msg_max_size', int(req.get('max_size', 500)), group='message')
        CONF.set_override('write_keepalive', bool(req.get('write_keepalive', False)), group='message')
        for name, content in req.get('files', []):
            with open(msgdir + name, 'w') as fh:
                fh.write(content)
        state = {'h': None}

        class Fac(object):
            peer_addr = peer

        class Peer(object):
            factory = Fac()
            msg_recv_stat = {'Keepalives': 2}

        def start():
            h = DHM.DefaultHandler()
            h.init_msg_file(key)
            state['h'] = h
        clock = [float(req.get('now', 5000.0))]
        import time as _time
        real_time = _time.time

        def fake_time():
            clock[0] += 1.0
            return clock[0]
        DHM.time.time = fake_time
        try:
            if req.get('start', True):
                try:
                    start()
                    log.append({'op': 'start', 'outcome': 'return'})
                except BaseException as e:
                    log.append({'op': 'start', 'outcome': 'raise', 'exc': type(e).__name__, 'exc_str': str(e)[:200]})
            for op in req.get('ops', []):
                rec = {'op': op[0]}
                try:
                    h = state['h']
                    if op[0] == 'write':
                        h.write_msg(peer, op[1], op[2], unj(op[3]))
                    elif op[0] == 'cb':
                        args = [unj(a) for a in op[2:]]
                        if op[1] == 'on_connection_failed':
                            getattr(h, op[1])(peer, *args)
                        else:
                            getattr(h, op[1])(Peer(), *args)
                    elif op[0] == 'rotate':
                        rec['result'] = jval(h.check_file_size(peer))
                    elif op[0] == 'get_last':
                        rec['result'] = jval(DHM.DefaultHandler.get_last_seq_and_file(msgdir))
                    elif op[0] == 'truncate':
                        names = sorted(os.listdir(msgdir))
                        if names:
                            path = msgdir + names[-1]
                            size = os.path.getsize(path)
                            with open(path, 'r+') as fh:
                                fh.truncate(max(0, size - int(op[1])))
                    elif op[0] == 'restart':
                        if h is not None and key in h.peer_files:
                            try:
                                h.peer_files[key][1].close()
                            except Exception:
                                pass
                        state['h'] = None
                        start()
                    rec['outcome'] = 'return'
                except BaseException as e:
                    rec['outcome'] = 'raise'
                    rec['exc'] = type(e).__name__
                    rec['exc_str'] = str(e)[:200]
                log.append(rec)
                if rec['outcome'] == 'raise' and op[0] in ('restart',):
                    break
        finally:
            DHM.time.time = real_time
        h = state['h']
        if h is not None:
            out['msg_sequence'] = jval(dict(h.msg_sequence))
            cur = h.peer_files.get(key)
            out['current_file'] = os.path.basename(cur[1].name) if cur else None
            out['peer_files_keys'] = sorted(h.peer_files.keys())
            for k, (pth, fobj) in h.peer_files.items():
                try:
                    fobj.close()
                except Exception:
                    pass
        out['files'] = [[n, open(msgdir + n).read()] for n in sorted(os.listdir(msgdir))]
        out['log'] = log
        out['outcome'] = 'done'
    finally:
        shutil.rmtree(tmp, ignore_errors=True)


def run_request(req):
    kind = req['kind']
    out = {'kind': kind}
    budget = float(req.get('cpu_s', 5.0))
    try:
        if kind == 'session':
            p, h, P = build_session(req['state'])
            recv = {'fsm': p.fsm, 'peering': p, 'protocol': P}[req['receiver']]
            def robj(a):
                if isinstance(a, dict) and 'obj' in a:
                    k = a['obj']
                    if k == 'P':
                        return P
                    if k == 'Reason':
                        return stubs.Reason('connection failed')
                    if k == 'Addr':
                        return stubs.Addr(a.get('host', '10.0.0.2'), a.get('port', 179))
                    if k == 'Connector':
                        return stubs.Connector(R, '10.0.0.2', 179, p, 30, None)
                    return object()
                return unj(a)
            args = [robj(a) for a in req.get('args', [])]
            kw = {k: unj(v) for k, v in req.get('kwargs', {}).items()}
            tr = P.transport if P is not None else None

            if req['method'] in ('buildProtocol', 'clientConnectionFailed'):
                for c in R.connectors:
                    if c.state == 'connecting':
                        c.state = 'resolved'
                        break
            n_conn0 = len(R.connectors)

            def call():
                return getattr(recv, req['method'])(*args, **kw)
            try:
                r = with_budget(call, budget)
                out['outcome'] = 'return'
                out['result'] = jval(r)
            except Timeout:
                out['outcome'] = 'timeout'
            except BaseException as e:
                out['outcome'] = 'raise'
                out['exc'] = type(e).__name__
                out['exc_str'] = str(e)[:300]
            out['view'] = view(p, h, P)
            out['view']['connects'] = len(R.connectors) - n_conn0
        elif kind == 'call':
            fn = resolve(req['function'])
            if req.get('instantiate'):
                cls = resolve(req['instantiate'])
                inst = cls(*[unj(a) for a in req.get('init_args', [])])
                fn = getattr(inst, req['function'].split('.')[-1])
            args = [unj(a) for a in req.get('args', [])]
            kw = {k: unj(v) for k, v in req.get('kwargs', {}).items()}
            try:
                r = with_budget(lambda: fn(*args, **kw), budget)
                out['outcome'] = 'return'
                out['result'] = jval(r)
            except Timeout:
                out['outcome'] = 'timeout'
            except BaseException as e:
                out['outcome'] = 'raise'
                out['exc'] = type(e).__name__
                out['exc_str'] = str(e)[:300]
                for k in ('sub_error', 'data', 'sub_results'):
                    if hasattr(e, k):
                        out['exc_' + k] = jval(getattr(e, k))
        elif kind == 'call_many':
            # one decoder, several candidate inputs (replay of a loop-head counter-model): any that does not
            # return within the CPU budget confirms non-termination
            fn = resolve(req['function'])
            runs = []
            for cand in req['candidates']:
                args = [unj(a) for a in cand]
                r = {'args': cand}
                try:
                    with_budget(lambda: fn(*args), budget)
                    r['outcome'] = 'return'
                except Timeout:
                    r['outcome'] = 'timeout'
                except BaseException as e:
                    r['outcome'] = 'raise'
                    r['exc'] = type(e).__name__
                runs.append(r)
                if r['outcome'] == 'timeout':
                    break
            out['outcome'] = 'timeout' if any(r['outcome'] == 'timeout' for r in runs) else 'done'
            out['runs'] = runs
        elif kind == 'logfs':
            run_logfs(req, out)
        else:
            out['outcome'] = 'error'
            out['error'] = 'unknown request kind'
    except BaseException as e:
        out['outcome'] = 'harness-error'
        out['error'] = traceback.format_exc()[-1500:]
    return out


def main():
    reqs = json.load(sys.stdin)
    outs = []
    for r in reqs:
        outs.append(run_request(r))
    json.dump(outs, sys.stdout)


if __name__ == '__main__':
    main()
